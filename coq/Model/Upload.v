(* Model of the chunked / resumable upload slice of cue-labs/oci:

     ociclient/writer.go   PushBlobChunked, PushBlobChunkedResume (both modes), blobWriter
                           (Write, flush, Close, Size, ChunkSize, ID, Commit),
                           chunkSizeFromResponse, the error made from a non-2xx response
     ociserver/writer.go   handleBlobStartUpload, handleBlobUploadInfo, handleBlobUploadChunk,
                           handleBlobCompleteUpload (chunkRange is in Model/RangeCodec.v),
                           the error response written for a handler error (code + status)
     ociunify/writer.go    PushBlobChunked, PushBlobChunkedResume, unifiedBlobWriter
     ocimem                through Model/Mem.v ([mem_backend] wraps Mem.step)

   Every layer is a value of [ubackend S W I]: the part of ociregistry.Interface that uploads
   use, over a state S, writer values W and upload identifiers I.  The server turns a backend
   into an HTTP handler ([serve]); the client turns an HTTP handler into a backend
   ([client_backend]); so one hop is [client_backend (serve mem)], two hops
   [client_backend (serve (client_backend (serve mem)))].

   Not modelled (tied by the correspondence run only): URL routing.  A request carries its
   upload location structurally ([loc]: repository + the backend's upload id, or a blob
   location) instead of a URL that ocirequest.Parse / Construct and url.ResolveReference
   take apart and rebuild; repository names and digests are assumed well formed (the server
   rejects others before any handler runs).  The JSON error body is its code; net/http is
   the identity on (headers, Content-Length, body).  io.Copy delivers a body to the
   backend writer as the pieces [pieces body] (an arbitrary function: the network decides). *)
From Coq Require Import String.
From OCI Require Export Base.Outcome Model.Iface Model.RangeCodec.

Local Open Scope Z_scope.

(* an error as the caller can observe it: OCI code and HTTP status (0 = the error carries none) *)
Record uerr := UE { ue_code : ecode; ue_status : Z }.

Definition octet_stream : bytes := s "application/octet-stream".

Record ubackend (S W I : Type) := {
  ub_start  : S -> bytes -> Z -> S * R uerr W;             (* PushBlobChunked(repo, chunkSize) *)
  ub_resume : S -> bytes -> I -> Z -> Z -> S * R uerr W;   (* PushBlobChunkedResume(repo, id, offset, chunkSize) *)
  ub_write  : S -> W -> bytes -> S * W * option uerr;      (* Write: all of the data or an error *)
  ub_close  : S -> W -> S * W * option uerr;
  ub_commit : S -> W -> bytes -> S * W * R uerr desc;
  ub_size   : S -> W -> Z;
  ub_chunk  : S -> W -> Z;
  ub_id     : S -> W -> I
}.
Arguments ub_start {S W I}. Arguments ub_resume {S W I}. Arguments ub_write {S W I}.
Arguments ub_close {S W I}. Arguments ub_commit {S W I}. Arguments ub_size {S W I}.
Arguments ub_chunk {S W I}. Arguments ub_id {S W I}.

(* ------------------------------------------------------------------ HTTP messages *)

(* where a request goes: an upload session of a repository, or a blob (the Location of the
   response to the closing PUT) *)
Inductive loc (I : Type) :=
  | LUpload (repo : bytes) (id : I)
  | LBlob (repo : bytes) (digest : bytes).
Arguments LUpload {I}. Arguments LBlob {I}.

Inductive request (I : Type) :=
  | QStart (repo : bytes)                                               (* POST /v2/<repo>/blobs/uploads/ *)
  | QInfo (l : loc I)                                                   (* GET <location> *)
  | QPatch (l : loc I) (content_range : bytes) (content_length : Z) (body : bytes)
  | QPut (l : loc I) (digest : bytes) (content_range : bytes) (content_length : Z) (body : bytes).
Arguments QStart {I}. Arguments QInfo {I}. Arguments QPatch {I}. Arguments QPut {I}.

Record response (I : Type) := {
  p_status : Z;
  p_code : ecode;                   (* code of the error body when the status is not 2xx *)
  p_location : option (loc I);      (* Location *)
  p_range : bytes;                  (* Range *)
  p_minchunk : bytes                (* OCI-Chunk-Min-Length *)
}.
Arguments p_status {I}. Arguments p_code {I}. Arguments p_location {I}.
Arguments p_range {I}. Arguments p_minchunk {I}.

(* ------------------------------------------------------------------ errors on the wire *)

(* ociregistry.errorStatuses *)
Definition status_of_code (c : ecode) : option Z :=
  match c with
  | BLOB_UNKNOWN => Some 404 | BLOB_UPLOAD_INVALID => Some 416 | BLOB_UPLOAD_UNKNOWN => Some 404
  | DIGEST_INVALID => Some 400 | MANIFEST_BLOB_UNKNOWN => Some 404 | MANIFEST_INVALID => Some 400
  | MANIFEST_UNKNOWN => Some 404 | NAME_INVALID => Some 400 | NAME_UNKNOWN => Some 404
  | SIZE_INVALID => Some 400 | UNAUTHORIZED => Some 401 | DENIED => Some 403
  | UNSUPPORTED => Some 400 | TOOMANYREQUESTS => Some 429 | RANGE_INVALID => Some 416
  | ECustom _ => None | ENone => None
  end.

Definition UNKNOWN_CODE : ecode := ECustom (s "UNKNOWN").

(* ociregistry.MarshalError as far as code and status go: an error without a code is sent
   as UNKNOWN; the status is the code's when the table has one, else the error's own HTTP
   status, else 500 *)
Definition wire_code (e : uerr) : ecode :=
  match ue_code e with ENone => UNKNOWN_CODE | c => c end.
Definition wire_status (e : uerr) : Z :=
  match status_of_code (wire_code e) with
  | Some st => st
  | None => if ue_status e =? 0 then 500 else ue_status e
  end.

Definition error_response {I} (e : uerr) : response I :=
  {| p_status := wire_status e; p_code := wire_code e; p_location := None; p_range := []; p_minchunk := [] |}.

(* badAPIUseError *)
Definition bad_api_use : uerr := UE UNSUPPORTED 0.
(* an error without code or status (fmt.Errorf without %w of a coded error) *)
Definition plain_error : uerr := UE ENone 0.

(* ------------------------------------------------------------------ ociserver *)

Section Server.
  Context {S W I : Type}.
  Variable B : ubackend S W I.
  Variable pieces : bytes -> list bytes.     (* how io.Copy cuts the request body into Writes *)

  (* io.Copy(w, req.Body): Write piece after piece, stop at the first error *)
  Fixpoint copy_pieces (st : S) (w : W) (ps : list bytes) : S * W * option uerr :=
    match ps with
    | [] => (st, w, None)
    | q :: ps' =>
        match ub_write B st w q with
        | (st1, w1, None) => copy_pieces st1 w1 ps'
        | (st1, w1, Some e) => (st1, w1, Some e)
        end
    end.
  Definition copy_body (st : S) (w : W) (body : bytes) := copy_pieces st w (pieces body).

  (* chunkRange, with its two badAPIUseError results *)
  Definition chunk_range_of (cr : bytes) (cl : Z) : R uerr (Z * Z) :=
    match chunk_range cr cl with
    | CROk a b => Ok (a, b)
    | CRBadRange => Err bad_api_use
    | CRBadLength _ => Err bad_api_use
    end.

  Definition upload_response (status : Z) (repo : bytes) (id : I) (range minchunk : bytes) : response I :=
    {| p_status := status; p_code := ENone; p_location := Some (LUpload repo id);
       p_range := range; p_minchunk := minchunk |}.

  (* handleBlobStartUpload *)
  Definition handle_start (st : S) (repo : bytes) : S * response I :=
    match ub_start B st repo 0 with
    | (st1, Ok w) =>
        let id := ub_id B st1 w in
        let mc := fmt_int (ub_chunk B st1 w) in
        let '(st2, _, _) := ub_close B st1 w in            (* defer w.Close() *)
        (st2, upload_response 202 repo id (s "0-0") mc)
    | (st1, Err e) => (st1, error_response e)
    | (st1, Panic) => (st1, error_response plain_error)    (* not reached by a modelled backend *)
    | (st1, OutOfFuel) => (st1, error_response plain_error)
    end.

  (* handleBlobUploadInfo *)
  Definition handle_info (st : S) (repo : bytes) (id : I) : S * response I :=
    match ub_resume B st repo id (-1) 0 with
    | (st1, Ok w) =>
        let id' := ub_id B st1 w in
        let rg := range_string 0 (ub_size B st1 w) in
        let '(st2, _, _) := ub_close B st1 w in
        (st2, upload_response 204 repo id' rg [])
    | (st1, Err e) => (st1, error_response e)
    | (st1, _) => (st1, error_response plain_error)
    end.

  (* handleBlobUploadChunk *)
  Definition handle_patch (st : S) (repo : bytes) (id : I) (cr : bytes) (cl : Z) (body : bytes) : S * response I :=
    match chunk_range_of cr cl with
    | Ok (a, b) =>
        match ub_resume B st repo id a (wrap64 (b - a)) with      (* int(end-start) *)
        | (st1, Ok w) =>
            match copy_body st1 w body with
            | (st2, w2, Some e) =>
                let '(st3, _, _) := ub_close B st2 w2 in
                (st3, error_response e)                    (* cannot copy blob data: %w *)
            | (st2, w2, None) =>
                match ub_close B st2 w2 with
                | (st3, w3, Some e) => (st3, error_response e)      (* cannot close BlobWriter: %w *)
                | (st3, w3, None) =>
                    (st3, upload_response 202 repo (ub_id B st3 w3) (range_string 0 (ub_size B st3 w3)) [])
                end
            end
        | (st1, Err e) => (st1, error_response e)
        | (st1, _) => (st1, error_response plain_error)
        end
    | Err e => (st, error_response e)
    | _ => (st, error_response plain_error)
    end.

  (* handleBlobCompleteUpload *)
  Definition handle_put (st : S) (repo : bytes) (id : I) (dig cr : bytes) (cl : Z) (body : bytes) : S * response I :=
    match chunk_range_of cr cl with
    | Ok (a, b) =>
        match ub_resume B st repo id a (wrap64 (b - a)) with      (* int(end-start) *)
        | (st1, Ok w) =>
            match copy_body st1 w body with
            | (st2, w2, Some e) =>
                let '(st3, _, _) := ub_close B st2 w2 in   (* defer w.Close() *)
                (st3, error_response e)                    (* failed to copy data: %w *)
            | (st2, w2, None) =>
                match ub_commit B st2 w2 dig with
                | (st3, w3, Ok de) =>
                    let '(st4, _, _) := ub_close B st3 w3 in
                    (st4, {| p_status := 201; p_code := ENone;
                             p_location := Some (LBlob repo (d_digest de));
                             p_range := []; p_minchunk := [] |})
                | (st3, w3, Err e) =>
                    let '(st4, _, _) := ub_close B st3 w3 in
                    (st4, error_response e)
                | (st3, w3, _) => (st3, error_response plain_error)
                end
            end
        | (st1, Err e) => (st1, error_response e)
        | (st1, _) => (st1, error_response plain_error)
        end
    | Err e => (st, error_response e)
    | _ => (st, error_response plain_error)
    end.

  (* A PATCH or PUT whose URL is a blob location is refused by ocirequest.Parse with
     "method not allowed" (405, no code => UNKNOWN); a GET of a blob location is a blob
     download, which this slice does not model beyond "it is not a 204". *)
  Definition method_not_allowed : response I :=
    {| p_status := 405; p_code := UNKNOWN_CODE; p_location := None; p_range := []; p_minchunk := [] |}.
  Definition blob_download : response I :=
    {| p_status := 200; p_code := ENone; p_location := None; p_range := []; p_minchunk := [] |}.

  Definition serve (st : S) (q : request I) : S * response I :=
    match q with
    | QStart repo => handle_start st repo
    | QInfo (LUpload repo id) => handle_info st repo id
    | QInfo (LBlob _ _) => (st, blob_download)
    | QPatch (LUpload repo id) cr cl body => handle_patch st repo id cr cl body
    | QPatch (LBlob _ _) _ _ _ => (st, method_not_allowed)
    | QPut (LUpload repo id) dig cr cl body => handle_put st repo id dig cr cl body
    | QPut (LBlob _ _) _ _ _ _ => (st, method_not_allowed)
    end.
End Server.

(* ------------------------------------------------------------------ ociclient *)

Definition DEFAULT_CHUNK : Z := 65536.          (* defaultChunkSize = 64 * 1024 *)

Record bwriter (I : Type) := {
  w_chunksize : Z;
  w_closed : bool;
  w_chunk : bytes;
  w_closeerr : option uerr;
  w_size : Z;
  w_flushed : Z;
  w_loc : loc I
}.
Arguments w_chunksize {I}. Arguments w_closed {I}. Arguments w_chunk {I}. Arguments w_closeerr {I}.
Arguments w_size {I}. Arguments w_flushed {I}. Arguments w_loc {I}.

Section Client.
  Context {S I : Type}.
  Variable srv : S -> request I -> S * response I.

  Definition is_ok_status (st : Z) : bool := st / 100 =? 2.

  (* client.do(req, expect): the response, or the error made of it *)
  Definition check_response (expect : Z) (p : response I) : R uerr (response I) :=
    if p_status p =? expect then Ok p
    else if negb (is_ok_status (p_status p)) then Err (UE (p_code p) (p_status p))    (* makeError *)
    else Err plain_error.                                                            (* unexpectedStatusError *)

  (* chunkSizeFromResponse *)
  Definition chunk_size_from_response (p : response I) (chunk : Z) : Z :=
    match parse_int (p_minchunk p) with
    | Some m => if m >? chunk then m else chunk
    | None => chunk
    end.

  (* PushBlobChunked *)
  Definition client_start (st : S) (repo : bytes) (hint : Z) : S * R uerr (bwriter I) :=
    let chunk := if hint <=? 0 then DEFAULT_CHUNK else hint in
    let '(st1, p) := srv st (QStart repo) in
    (st1,
     do p <- check_response 202 p;
     match p_location p with
     | None => Err plain_error                      (* no Location found in response *)
     | Some l =>
         Ok {| w_chunksize := chunk_size_from_response p chunk; w_closed := false; w_chunk := [];
               w_closeerr := None; w_size := 0; w_flushed := 0; w_loc := l |}
     end).

  (* PushBlobChunkedResume; [id] is what ID() returned: the location *)
  Definition client_resume (st : S) (repo : bytes) (id : loc I) (offset hint : Z) : S * R uerr (bwriter I) :=
    let chunk := if hint <=? 0 then DEFAULT_CHUNK else hint in
    if offset =? -1 then
      let '(st1, p) := srv st (QInfo id) in
      (st1,
       do p <- check_response 204 p;                (* cannot recover chunk offset: %w *)
       match p_location p with
       | None => Err plain_error
       | Some l =>
           match parse_range (p_range p) with
           | None => Err plain_error                (* invalid range in response *)
           | Some (p0, p1) =>
               if negb (p0 =? 0) then Err plain_error     (* range does not start with 0 *)
               else Ok {| w_chunksize := chunk_size_from_response p chunk; w_closed := false; w_chunk := [];
                          w_closeerr := None; w_size := p1; w_flushed := p1; w_loc := l |}
           end
       end)
    else if offset <? 0 then (st, Err plain_error)  (* invalid offset; must be -1 or non-negative *)
    else
      (st, Ok {| w_chunksize := chunk; w_closed := false; w_chunk := []; w_closeerr := None;
                 w_size := offset; w_flushed := offset; w_loc := id |}).

  (* blobWriter.flush(buf, commitDigest); [dig] = None for commitDigest == "" *)
  Definition client_flush (st : S) (w : bwriter I) (buf : bytes) (dig : option bytes) : S * bwriter I * option uerr :=
    let data := w_chunk w ++ buf in
    match dig, data with
    | None, [] => (st, w, None)
    | _, _ =>
        let cl := blen data in
        let cr := range_string (w_flushed w) (w_flushed w + cl) in
        let '(q, expect) := match dig with
                            | None => (QPatch (w_loc w) cr cl data, 202)
                            | Some d => (QPut (w_loc w) d cr cl data, 201)
                            end in
        let '(st1, p) := srv st q in
        match check_response expect p with
        | Ok p =>
            match p_location p with
            | None => (st1, w, Some plain_error)          (* bad Location in response *)
            | Some l =>
                (st1, {| w_chunksize := w_chunksize w; w_closed := w_closed w; w_chunk := [];
                         w_closeerr := w_closeerr w; w_size := w_size w;
                         w_flushed := w_flushed w + cl; w_loc := l |}, None)
            end
        | Err e => (st1, w, Some e)
        | _ => (st1, w, Some plain_error)
        end
    end.

  (* blobWriter.Write *)
  Definition client_write (st : S) (w : bwriter I) (buf : bytes) : S * bwriter I * option uerr :=
    if blen (w_chunk w) + blen buf >? w_chunksize w then
      match client_flush st w buf None with
      | (st1, w1, None) =>
          (st1, {| w_chunksize := w_chunksize w1; w_closed := w_closed w1; w_chunk := w_chunk w1;
                   w_closeerr := w_closeerr w1; w_size := w_size w1 + blen buf;
                   w_flushed := w_flushed w1; w_loc := w_loc w1 |}, None)
      | (st1, w1, Some e) => (st1, w1, Some e)
      end
    else
      (st, {| w_chunksize := w_chunksize w; w_closed := w_closed w; w_chunk := w_chunk w ++ buf;
              w_closeerr := w_closeerr w; w_size := w_size w + blen buf;
              w_flushed := w_flushed w; w_loc := w_loc w |}, None).

  (* blobWriter.Close *)
  Definition client_close (st : S) (w : bwriter I) : S * bwriter I * option uerr :=
    if w_closed w then (st, w, w_closeerr w)
    else
      let '(st1, w1, e) := client_flush st w [] None in
      (st1, {| w_chunksize := w_chunksize w1; w_closed := true; w_chunk := w_chunk w1;
               w_closeerr := e; w_size := w_size w1; w_flushed := w_flushed w1; w_loc := w_loc w1 |}, e).

  (* blobWriter.Commit *)
  Definition client_commit (st : S) (w : bwriter I) (dig : bytes) : S * bwriter I * R uerr desc :=
    match dig with
    | [] => (st, w, Err plain_error)                 (* cannot commit with an empty digest *)
    | _ =>
        match client_flush st w [] (Some dig) with
        | (st1, w1, Some e) => (st1, w1, Err e)      (* cannot flush data before commit: %w *)
        | (st1, w1, None) =>
            (st1, w1, Ok {| d_media := octet_stream; d_digest := dig; d_size := w_size w1; d_artifact := [] |})
        end
    end.

  Definition client_backend : ubackend S (bwriter I) (loc I) :=
    {| ub_start := client_start;
       ub_resume := client_resume;
       ub_write := client_write;
       ub_close := client_close;
       ub_commit := client_commit;
       ub_size := fun _ w => w_size w;
       ub_chunk := fun _ w => w_chunksize w;
       ub_id := fun _ w => w_loc w |}.
End Client.

(* ------------------------------------------------------------------ ociunify *)

Record uniwriter (W0 W1 : Type) := { uw_0 : W0; uw_1 : W1; uw_size : Z }.
Arguments uw_0 {W0 W1}. Arguments uw_1 {W0 W1}. Arguments uw_size {W0 W1}.

Section Unify.
  Context {S0 W0 I0 S1 W1 I1 : Type}.
  Variable B0 : ubackend S0 W0 I0.
  Variable B1 : ubackend S1 W1 I1.

  (* bothResults: which error comes back (errors.As finds the first one in
     "r0 and r1 failed: %w; %w" / "r0 failed: %w" / "r1 failed: %w") *)
  Definition both_err (e0 e1 : option uerr) : option uerr :=
    match e0, e1 with
    | None, None => None
    | Some e, _ => Some e
    | None, Some e => Some e
    end.

  Definition close_if_ok0 (st : S0) (r : R uerr W0) : S0 :=
    match r with Ok w => fst (fst (ub_close B0 st w)) | _ => st end.
  Definition close_if_ok1 (st : S1) (r : R uerr W1) : S1 :=
    match r with Ok w => fst (fst (ub_close B1 st w)) | _ => st end.

  Definition r_err {A} (r : R uerr A) : option uerr :=
    match r with Ok _ => None | Err e => Some e | _ => Some plain_error end.

  (* PushBlobChunked *)
  Definition unify_start (st : S0 * S1) (repo : bytes) (hint : Z) : (S0 * S1) * R uerr (uniwriter W0 W1) :=
    let '(a, r0) := ub_start B0 (fst st) repo hint in
    let '(b, r1) := ub_start B1 (snd st) repo hint in
    match r0, r1 with
    | Ok w0, Ok w1 => ((a, b), Ok {| uw_0 := w0; uw_1 := w1; uw_size := ub_size B0 a w0 |})
    | _, _ =>
        ((close_if_ok0 a r0, close_if_ok1 b r1),
         match both_err (r_err r0) (r_err r1) with Some e => Err e | None => Err plain_error end)
    end.

  (* PushBlobChunkedResume; the id is the pair of the members' ids (base64 of a JSON list) *)
  Definition unify_resume (st : S0 * S1) (repo : bytes) (id : I0 * I1) (offset hint : Z)
    : (S0 * S1) * R uerr (uniwriter W0 W1) :=
    let '(a, r0) := ub_resume B0 (fst st) repo (fst id) offset hint in
    let '(b, r1) := ub_resume B1 (snd st) repo (snd id) offset hint in
    match r0, r1 with
    | Ok w0, Ok w1 =>
        let size := ub_size B0 a w0 in
        if negb (ub_size B1 b w1 =? size) then
          ((close_if_ok0 a r0, close_if_ok1 b r1), Err plain_error)   (* registries do not agree on upload size *)
        else ((a, b), Ok {| uw_0 := w0; uw_1 := w1; uw_size := size |})
    | _, _ =>
        ((close_if_ok0 a r0, close_if_ok1 b r1),
         match both_err (r_err r0) (r_err r1) with Some e => Err e | None => Err plain_error end)
    end.

  Definition unify_write (st : S0 * S1) (w : uniwriter W0 W1) (buf : bytes)
    : (S0 * S1) * uniwriter W0 W1 * option uerr :=
    let '(a, w0, e0) := ub_write B0 (fst st) (uw_0 w) buf in
    let '(b, w1, e1) := ub_write B1 (snd st) (uw_1 w) buf in
    match both_err e0 e1 with
    | Some e => ((a, b), {| uw_0 := w0; uw_1 := w1; uw_size := uw_size w |}, Some e)
    | None => ((a, b), {| uw_0 := w0; uw_1 := w1; uw_size := uw_size w + blen buf |}, None)
    end.

  Definition unify_close (st : S0 * S1) (w : uniwriter W0 W1) : (S0 * S1) * uniwriter W0 W1 * option uerr :=
    let '(a, w0, e0) := ub_close B0 (fst st) (uw_0 w) in
    let '(b, w1, e1) := ub_close B1 (snd st) (uw_1 w) in
    ((a, b), {| uw_0 := w0; uw_1 := w1; uw_size := uw_size w |}, both_err e0 e1).

  Definition unify_commit (st : S0 * S1) (w : uniwriter W0 W1) (dig : bytes)
    : (S0 * S1) * uniwriter W0 W1 * R uerr desc :=
    let '(a, w0, r0) := ub_commit B0 (fst st) (uw_0 w) dig in
    let '(b, w1, r1) := ub_commit B1 (snd st) (uw_1 w) dig in
    ((a, b), {| uw_0 := w0; uw_1 := w1; uw_size := uw_size w |},
     match both_err (r_err r0) (r_err r1) with
     | Some e => Err e
     | None => r0
     end).

  Definition unify_backend : ubackend (S0 * S1) (uniwriter W0 W1) (I0 * I1) :=
    {| ub_start := unify_start;
       ub_resume := unify_resume;
       ub_write := unify_write;
       ub_close := unify_close;
       ub_commit := unify_commit;
       ub_size := fun _ w => uw_size w;
       ub_chunk := fun st w => Z.max (ub_chunk B0 (fst st) (uw_0 w)) (ub_chunk B1 (snd st) (uw_1 w));
       ub_id := fun st w => (ub_id B0 (fst st) (uw_0 w), ub_id B1 (snd st) (uw_1 w)) |}.
End Unify.

(* ------------------------------------------------------------------ upload scripts *)

(* how a script resumes: at the offset the closed writer reported (Size()), by asking the
   registry (-1), or at an explicit offset of the script's choosing *)
Inductive rmode := MSize | MInfo | MAt (off : Z).

Inductive uop :=
  | UStart (hint : Z)
  | UResume (m : rmode) (hint : Z)
  | UWrite (data : bytes)
  | UClose
  | UCommit (d : bytes).

Inductive ures :=
  | UOk (n : Z)                (* bytes accepted by Write, descriptor size of Commit, 0 otherwise *)
  | UErr (c : ecode) (status : Z)
  | UBroken.                   (* Panic / OutOfFuel / an operation without a writer *)

(* one step's observation: the result, then Size() and ChunkSize() of the current writer *)
Record uobs := { uo_res : ures; uo_size : Z; uo_chunk : Z }.

Section Script.
  Context {S W I : Type}.
  Variable B : ubackend S W I.
  Variable repo : bytes.

  Definition ures_of_err (e : uerr) : ures := UErr (ue_code e) (ue_status e).

  Definition observe (st : S) (w : option W) (r : ures) : uobs :=
    match w with
    | Some w => {| uo_res := r; uo_size := ub_size B st w; uo_chunk := ub_chunk B st w |}
    | None => {| uo_res := r; uo_size := 0; uo_chunk := 0 |}
    end.

  Definition new_writer (cur : option W) (r : S * R uerr W) : S * option W * ures :=
    match r with
    | (st1, Ok w) => (st1, Some w, UOk 0)
    | (st1, Err e) => (st1, cur, ures_of_err e)
    | (st1, _) => (st1, cur, UBroken)
    end.

  Definition script_step (st : S) (cur : option W) (o : uop) : S * option W * ures :=
    match o, cur with
    | UStart hint, _ => new_writer cur (ub_start B st repo hint)
    | UResume m hint, Some w =>
        let off := match m with MSize => ub_size B st w | MInfo => -1 | MAt z => z end in
        new_writer cur (ub_resume B st repo (ub_id B st w) off hint)
    | UWrite data, Some w =>
        match ub_write B st w data with
        | (st1, w1, None) => (st1, Some w1, UOk (blen data))
        | (st1, w1, Some e) => (st1, Some w1, ures_of_err e)
        end
    | UClose, Some w =>
        match ub_close B st w with
        | (st1, w1, None) => (st1, Some w1, UOk 0)
        | (st1, w1, Some e) => (st1, Some w1, ures_of_err e)
        end
    | UCommit d, Some w =>
        match ub_commit B st w d with
        | (st1, w1, Ok de) => (st1, Some w1, UOk (d_size de))
        | (st1, w1, Err e) => (st1, Some w1, ures_of_err e)
        | (st1, w1, _) => (st1, Some w1, UBroken)
        end
    | _, None => (st, None, UBroken)
    end.

  Fixpoint run_script (st : S) (cur : option W) (ops : list uop) : S * option W * list uobs :=
    match ops with
    | [] => (st, cur, [])
    | o :: ops' =>
        let '(st1, cur1, r) := script_step st cur o in
        let '(st2, cur2, obs) := run_script st1 cur1 ops' in
        (st2, cur2, observe st1 cur1 r :: obs)
    end.
End Script.
