(* C15 for ocimem members: the relation "equal up to upload-session identifiers" between
   two states of the in-memory registry model (Model/Mem.v), and the vocabulary of the
   statements in Proofs/UnifyMem.v.  Definitions only.

   Real ocimem names an upload session by a random 256-bit hex string (blob.go newUUID);
   the model names it "#n" from a counter ([fresh_id (next_id st)]), and a writer is the
   position of its buffer in [bufs].  Two members that received the same calls therefore
   hold the same repositories, tags, manifests and blobs, but their sessions carry
   different identifiers and sit at different positions: the relation is relative to a
   renaming [p : ren] (Proofs/Unify.v) - [r_ids p] pairs the members' upload IDs,
   [r_ws p] pairs their writer handles. *)
From Coq Require Import String.
From OCI Require Export Model.Unify Model.Mem Proofs.Unify.

(* the calls that can allocate an upload ID *)
Definition is_chunk_start (o : op) : bool :=
  match o with PushBlobChunked _ _ | PushBlobChunkedResume _ _ _ _ => true | _ => false end.

(* The model's ID generator renders the counter with at most 40 decimal digits, so it
   hands out pairwise different IDs only while the counter is below 10^40 (see
   [fresh_id_collides] in Proofs/UnifyMem.v).  The statements carry the bound. *)
Definition ID_LIMIT : N := 10 ^ 40.

(* ---------- what the relation compares ---------- *)

(* the content of a state: every repository with its tags, manifests and blobs, in table
   order; upload sessions, buffers and the ID counter blanked *)
Definition strip_repo (rp : repo) : repo :=
  {| tags := tags rp; manifests := manifests rp; blobs := blobs rp; uploads := [] |}.
Definition strip (st : state) : state :=
  {| repos := map (fun kv => (fst kv, strip_repo (snd kv))) (repos st); bufs := []; next_id := 0 |}.

(* the upload table of repository r (empty when there is no such repository) *)
Definition uploads_of (st : state) (r : bytes) : alist N :=
  match get_repo st r with Some rp => uploads rp | None => [] end.

(* two buffers of one upload: everything equal but the ID, and the IDs are paired *)
Record buf_rel (p : ren) (b0 b1 : buffer) : Prop := {
  br_repo : u_repo b0 = u_repo b1;
  br_buf : u_buf b0 = u_buf b1;
  br_check : u_check b0 = u_check b1;
  br_committed : u_committed b0 = u_committed b1;
  br_desc : u_desc b0 = u_desc b1;
  br_err : u_err b0 = u_err b1;
  br_id : In (u_id b0, u_id b1) (r_ids p)
}.

(* a list of pairs that is the graph of a partial bijection *)
Definition bij {A B : Type} (l : list (A * B)) : Prop :=
  forall a b a' b', In (a, b) l -> In (a', b') l -> (a = a' <-> b = b').

(* the two members' lookups of one upload: both absent, or paired writers *)
Definition up_match (p : ren) (x0 x1 : option N) : Prop :=
  match x0, x1 with
  | None, None => True
  | Some i0, Some i1 => In (i0, i1) (r_ws p)
  | _, _ => False
  end.

(* "equal up to upload-session identifiers" *)
Record mem_rel (idok : bytes -> Prop) (p : ren) (s0 s1 : state) : Prop := {
  (* same repositories, same tags, manifests and blobs in each *)
  mr_content : strip s0 = strip s1;
  (* the renaming is a bijection between the upload IDs / the writers it mentions *)
  mr_bij_ids : bij (r_ids p);
  mr_bij_ws : bij (r_ws p);
  (* IDs are non-empty strings the composite-ID codec round-trips on *)
  mr_ids : forall a b, In (a, b) (r_ids p) -> a <> [] /\ b <> [] /\ idok a /\ idok b;
  (* upload sessions in bijection: in every repository, paired IDs name paired writers or
     nothing at all; every session has its ID in the renaming *)
  mr_up : forall r a b, In (a, b) (r_ids p) ->
          up_match p (alookup a (uploads_of s0 r)) (alookup b (uploads_of s1 r));
  mr_keys0 : forall r a, In a (akeys (uploads_of s0 r)) -> exists b, In (a, b) (r_ids p);
  mr_keys1 : forall r b, In b (akeys (uploads_of s1 r)) -> exists a, In (a, b) (r_ids p);
  (* paired writers are buffers with equal contents *)
  mr_ws : forall w0 w1, In (w0, w1) (r_ws p) ->
          exists b0 b1, nth_error (bufs s0) (N.to_nat w0) = Some b0
                        /\ nth_error (bufs s1) (N.to_nat w1) = Some b1 /\ buf_rel p b0 b1;
  (* the IDs the generators will hand out next are not in use *)
  mr_fresh0 : forall n a b, (next_id s0 <= n < ID_LIMIT)%N -> In (a, b) (r_ids p) -> a <> fresh_id n;
  mr_fresh1 : forall n a b, (next_id s1 <= n < ID_LIMIT)%N -> In (a, b) (r_ids p) -> b <> fresh_id n
}.

(* with the room left in the ID generators: k more IDs can be allocated by each member *)
Definition mem_rel_k (idok : bytes -> Prop) (k : nat) (p : ren) (s0 s1 : state) : Prop :=
  mem_rel idok p s0 s1
  /\ (next_id s0 + N.of_nat k <= ID_LIMIT)%N /\ (next_id s1 + N.of_nat k <= ID_LIMIT)%N.

(* ---------- one state against itself ---------- *)

(* every upload ID in use: the keys of every upload table and the ID of every buffer *)
Definition ids_of (st : state) : list bytes :=
  flat_map (fun kv => akeys (uploads (snd kv))) (repos st) ++ map u_id (bufs st).

(* the identity renaming on a state *)
Definition diag {A : Type} (l : list A) : list (A * A) := map (fun a => (a, a)) l.
Definition ren_of (st : state) : ren :=
  {| r_ids := diag (ids_of st); r_ws := diag (map N.of_nat (seq 0 (length (bufs st)))) |}.

(* a state two equal members can start from *)
Record mem_ok (idok : bytes -> Prop) (st : state) : Prop := {
  mo_ids : forall a, In a (ids_of st) -> a <> [] /\ idok a;
  mo_up : forall r a i, alookup a (uploads_of st r) = Some i -> (N.to_nat i < length (bufs st))%nat;
  mo_fresh : forall n, (next_id st <= n < ID_LIMIT)%N -> ~ In (fresh_id n) (ids_of st)
}.

(* no upload session has ever been started *)
Definition no_sessions (st : state) : Prop :=
  bufs st = [] /\ forall kv, In kv (repos st) -> uploads (snd kv) = [].

(* ---------- reading a state ---------- *)

(* the calls that only read *)
Definition is_read (o : op) : bool := is_digest_read o || is_tag_read o || is_listing o.

(* member i of the unifier state holds blob / manifest d in repository r *)
Definition holds (st : state) (o : op) : bool :=
  match o with
  | GetBlob r d | ResolveBlob r d => match iblob st r d with Some _ => true | None => false end
  | GetManifest r d | ResolveManifest r d => match iman st r d with Some _ => true | None => false end
  | _ => false
  end.
Definition is_whole_digest_read (o : op) : bool :=
  match o with
  | GetBlob _ _ | ResolveBlob _ _ | GetManifest _ _ | ResolveManifest _ _ => true
  | _ => false
  end.
