(* ocifilter/sub.go as it was before work/fixes/sub-confinement.msg: repo() joined the
   prefix and the name with path.Join (which cleans the result), kept the empty name
   empty, and Repositories passed its start point to the wrapped registry unchanged.
   Kept with its refutations (Props/C13.v, ..._legacy_refuted) so that the witnesses in
   corpus/C13 keep their meaning; nothing else depends on this file. *)
From Coq Require Import String.
From OCI Require Export Model.Filter Model.PathClean.

(*  func (r *subRegistry) repo(name string) string {
        if name == "" { return "" }
        return path.Join(r.prefix, name)
    } *)
Definition legacy_repo (prefix name : bytes) : bytes :=
  match name with
  | [] => []
  | _ => path_join [prefix; name]
  end.

(* the legacy Repositories method over a wrapped registry *)
Definition legacy_repositories {B} (prefix : bytes) (cbstep : ctx_registry B) (ctx : scope)
    (st : B) (startAfter : bytes) : B * result * list bcall :=
  let ctx := map_scopes prefix ctx in
  let p := prefix ++ [slash] in
  let '(st', res) := cbstep ctx st (Repositories startAfter) in
  (st', repos_result (cut_prefix p) res, [(ctx, Repositories startAfter)]).

(* a registry that is nothing but a sorted list of repository names and honours the
   Lister contract: Repositories(start) yields the names after start *)
Definition names_registry (names : list bytes) : ctx_registry unit :=
  fun _ st o =>
    match o with
    | Repositories start => (st, Ok (RList (after start names) None))
    | _ => (st, Err (E UNSUPPORTED []))
    end.
