(* Extended upload scripts for C04 (round 4): the operations of Model/Upload.v plus

     - a transient fault between the outermost client and its server: the next requests are
       answered according to a plan (0 = goes through, otherwise the request is answered with
       that HTTP status WITHOUT reaching the server, e.g. a gateway 502 / 503 / 429);
     - remembering the ID() of the writer in hand and resuming THAT upload session later
       (after a Commit the ID of an ociclient writer is the blob URL, so a session that has
       been committed can only be reached again through an identifier taken earlier).

   Nothing in Model/Upload.v changes: [faulty] wraps a server function, the stacks are the
   same [client_backend] / [serve] / [unify_backend] compositions. *)
From Coq Require Import String.
From OCI Require Export Base.Outcome Model.UploadMem.

Local Open Scope Z_scope.

(* the code in the error body the fault injector of the harness sends *)
Definition FAULT_CODE : ecode := ECustom (s "UNAVAILABLE").

Section Faulty.
  Context {S I : Type}.
  Variable srv : S -> request I -> S * response I.

  Definition fault_response (status : Z) : response I :=
    {| p_status := status; p_code := FAULT_CODE; p_location := None; p_range := []; p_minchunk := [] |}.

  (* the state carries the plan: the fate of the next requests *)
  Definition faulty (st : S * list Z) (q : request I) : (S * list Z) * response I :=
    match snd st with
    | [] => let '(s1, p) := srv (fst st) q in ((s1, []), p)
    | f :: fs =>
        if f =? 0 then let '(s1, p) := srv (fst st) q in ((s1, fs), p)
        else ((fst st, fs), fault_response f)
    end.
End Faulty.

Inductive xop :=
  | XU (o : uop)                          (* an operation of Model/Upload.v on the writer in hand *)
  | XMark                                 (* remember ID() of the writer in hand *)
  | XResumeMark (m : rmode) (hint : Z)    (* PushBlobChunkedResume(remembered id, offset by mode, hint) *)
  | XFault (plan : list Z)                (* install a fault plan in front of the server *)
  | XForget.                              (* the registries underneath lose everything they hold (a restart of an
                                             in-memory registry, expired sessions): the ids the script remembers are
                                             well formed but name uploads the registry has never seen; the writer in
                                             hand is dropped *)

Section XScript.
  Context {S W I : Type}.
  Variable B : ubackend S W I.
  Variable setf : S -> list Z -> S.
  Variable forget : S -> S.
  Variable repo : bytes.

  Definition x_step (st : S) (cur : option W) (mark : option I) (o : xop) : S * option W * option I * ures :=
    match o with
    | XU u => let '(st1, cur1, r) := script_step B repo st cur u in (st1, cur1, mark, r)
    | XMark =>
        match cur with
        | Some w => (st, cur, Some (ub_id B st w), UOk 0)
        | None => (st, cur, mark, UBroken)
        end
    | XResumeMark m hint =>
        match mark with
        | Some id =>
            let off := match m with
                       | MSize => option_map (ub_size B st) cur
                       | MInfo => Some (-1)
                       | MAt z => Some z
                       end in
            match off with
            | Some off =>
                let '(st1, cur1, r) := new_writer cur (ub_resume B st repo id off hint) in (st1, cur1, mark, r)
            | None => (st, cur, mark, UBroken)
            end
        | None => (st, cur, mark, UBroken)
        end
    | XFault plan => (setf st plan, cur, mark, UOk 0)
    | XForget => (forget st, None, mark, UOk 0)
    end.

  Fixpoint run_x (st : S) (cur : option W) (mark : option I) (ops : list xop) : S * list uobs :=
    match ops with
    | [] => (st, [])
    | o :: ops' =>
        let '(st1, cur1, mark1, r) := x_step st cur mark o in
        let '(st2, obs) := run_x st1 cur1 mark1 ops' in
        (st2, observe B st1 cur1 r :: obs)
    end.
End XScript.

(* the stacks with a fault point in front of the outermost server *)
Section XStacks.
  Variable hash : bytes -> bytes.
  Variable valid_digest : bytes -> bool.
  Variable valid_repo : bytes -> bool.
  Variable valid_tag : bytes -> bool.
  Variable decode_image : bytes -> option image_manifest.
  Variable decode_index : bytes -> option index_manifest.
  Variable cfg : config.
  Variable pieces : bytes -> list bytes.

  Let mb := mem_backend hash valid_digest valid_repo valid_tag decode_image decode_index cfg.
  Let h1 := hop1 hash valid_digest valid_repo valid_tag decode_image decode_index cfg pieces.

  Definition xhop1 : ubackend (state * list Z) (bwriter bytes) (loc bytes) :=
    client_backend (faulty (serve mb pieces)).
  Definition xhop2 : ubackend (state * list Z) (bwriter (loc bytes)) (loc (loc bytes)) :=
    client_backend (faulty (serve h1 pieces)).
  Definition set_plan (st : state * list Z) (plan : list Z) : state * list Z := (fst st, plan).
End XStacks.
