(* handleManifestGet as it was before the repair "ociserver: close the backend reader after
   a manifest GET": the reader obtained from GetTag / GetManifest is copied to the response and
   never closed.  Kept so that the corpus case corpus/C06/manifest_get_reader_not_closed.json
   keeps its meaning; Model/Server.v follows the repaired code. *)
From Coq Require Import String.
From OCI Require Export Base.Outcome Model.Server.

Section Legacy.
  Variable B : Type.
  Variable bstep : backend B.
  Variable o : opts.

  Definition handle_manifest_get_unrepaired (st : hst B) (rreq : request) : hst B * HR :=
    let '(st, r) := match q_tag rreq with
                    | _ :: _ => call B bstep st (GetTag (q_repo rreq) (q_tag rreq))
                    | [] => call B bstep st (GetManifest (q_repo rreq) (q_digest rreq))
                    end in
    match as_read r with
    | Ok (d, data) =>
        let st := if negb (o_omit_digest_from_tag_get o) then set_hdr B H_dcd (d_digest d) st else st in
        let st := set_hdr B H_ctype (d_media d) st in
        let st := set_hdr B H_clen (dec_Z (d_size d)) st in
        let st := write_header B 200 st in
        let st := write_body B data None st in
        (st, Ok tt)                                      (* no mr.Close() *)
    | Err e => (st, Err e)
    | Panic => (st, Panic)
    | OutOfFuel => (st, OutOfFuel)
    end.
End Legacy.
