(* ociclient's blobReader.Read as it was before the repair
   ociclient-range-reader-overlong-eof (C01): the non-verifying reader (range reads) checked
   "more bytes than the descriptor's size" only on reads that returned a nil error, so bytes
   delivered together with io.EOF were never counted.  Kept so that the corpus case
   corpus/C01/range_overlong_eof_with_data.json keeps its meaning; the witness is
   Props/C01.v C01_legacy_range_reader_refuted. *)
From Coq Require Import String.
From OCI Require Export Model.BlobReader.

Local Open Scope Z_scope.

Section Legacy.
  Variable hashd : bytes -> bytes -> bytes.

  Definition br_read_legacy (r : br) (chunk : bytes) (e : rerr) : br * rres :=
    let r' := {| br_n := br_n r + blen chunk; br_acc := br_acc r ++ chunk;
                 br_desc := br_desc r; br_verify := br_verify r |} in
    let size := d_size (br_desc r) in
    match e with
    | RNil => if br_n r' >? size then (r', RRSize) else (r', RROk)
    | RFail => (r', RRUnder)
    | REOF =>
        if negb (br_verify r) then (r', RREOF)
        else if negb (br_n r' =? size) then (r', RRSize)
        else if negb (beqb (hashd (br_alg r) (br_acc r')) (d_digest (br_desc r))) then (r', RRDigest)
        else (r', RREOF)
    end.

  Fixpoint drain_legacy (r : br) (sc : script) (data : bytes) : drained :=
    match sc with
    | [] => DHang data
    | (chunk, e) :: rest =>
        let '(r', res) := br_read_legacy r chunk e in
        match res with
        | RROk => drain_legacy r' rest (data ++ chunk)
        | RREOF => DClean (data ++ chunk)
        | other => DErr (data ++ chunk) other
        end
    end.
End Legacy.
