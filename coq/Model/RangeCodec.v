(* Model of the byte-range header codecs of cue-labs/oci, function by function:

     strconv.ParseInt(s, 10, 64), fmt "%d"               parse_int, fmt_int
     ocirequest.ParseRange / RangeString                 parse_range, range_string
        (internal/ocirequest/request.go; Content-Range of uploads and the Range
         header of the upload status; after the repair "n-(n-1)" = empty range at n)
     ociserver.chunkRange (ociserver/writer.go)          chunk_range
        (after the repair: "0-0" with Content-Length 1 is the first byte)
     ociserver.parseRange (ociserver/range.go)           parse_http_range
     ociclient GetBlobRange Range header, ociserver
        Content-Range "bytes a-b/n" (reader.go)          client_range_header, content_range_header

   int64 is modelled as Z with explicit wrap-around ([wrap64]) at the two places where
   the Go code does arithmetic on a parsed value before validating it (end-- in RangeString,
   p1++ in ParseRange).  Strings are byte lists; a header that is absent is the empty
   string, as http.Header.Get reports it. *)
From Coq Require Import String.
From OCI Require Export Base.Outcome.

Local Open Scope Z_scope.

(* ---------- int64 ---------- *)

Definition MIN64 : Z := - 9223372036854775808.
Definition MAX64 : Z := 9223372036854775807.
Definition in_int64 (z : Z) : bool := (MIN64 <=? z) && (z <=? MAX64).
Definition wrap64 (z : Z) : Z := (z + 9223372036854775808) mod 18446744073709551616 - 9223372036854775808.

(* ---------- decimal codec ---------- *)

Definition is_digit (c : N) : bool := ((48 <=? c) && (c <=? 57))%N.

(* Horner evaluation of a digit string; None when empty or when a byte is not a digit *)
Fixpoint digits_val (acc : N) (a : bytes) : option N :=
  match a with
  | [] => Some acc
  | c :: a' => if is_digit c then digits_val (10 * acc + (c - 48))%N a' else None
  end.

Definition parse_digits (a : bytes) : option N :=
  match a with
  | [] => None
  | _ => digits_val 0%N a
  end.

(* strconv.ParseInt(a, 10, 64): optional sign, at least one digit, digits only (no
   underscores in base 10), value within int64; None = a non-nil error *)
Definition parse_int (a : bytes) : option Z :=
  match a with
  | [] => None
  | c :: r =>
      let '(neg, ds) := if (c =? 43)%N then (false, r)
                        else if (c =? 45)%N then (true, r) else (false, a) in
      match parse_digits ds with
      | None => None
      | Some n => let z := if neg then (- Z.of_N n) else Z.of_N n in
                  if in_int64 z then Some z else None
      end
  end.

(* decimal digits of n, least significant first; the fuel is the bit length of n, plus one *)
Fixpoint dec_rev (fuel : nat) (n : N) : bytes :=
  match fuel with
  | O => []
  | S f => (48 + n mod 10)%N :: (if (n / 10 =? 0)%N then [] else dec_rev f (n / 10)%N)
  end.

Definition fmt_N (n : N) : bytes := rev (dec_rev (S (N.to_nat (N.size n))) n).

(* fmt.Sprintf("%d", z) *)
Definition fmt_int (z : Z) : bytes :=
  match z with
  | Z0 => fmt_N 0
  | Zpos q => fmt_N (Npos q)
  | Zneg q => 45%N :: fmt_N (Npos q)
  end.

(* ---------- ocirequest.RangeString / ParseRange ---------- *)

Definition DASH : N := 45%N.

(* func RangeString(start, end int64) string {
       end--
       if end < 0 { end = 0 }
       return fmt.Sprintf("%d-%d", start, end) } *)
Definition range_string (start end_ : Z) : bytes :=
  let e := wrap64 (end_ - 1) in
  let e := if e <? 0 then 0 else e in
  fmt_int start ++ DASH :: fmt_int e.

(* func ParseRange(s string) (start, end int64, ok bool) {
       p0s, p1s, ok := strings.Cut(s, "-")
       if !ok { return 0, 0, false }
       p0, err0 := strconv.ParseInt(p0s, 10, 64)
       p1, err1 := strconv.ParseInt(p1s, 10, 64)
       if p1 > 0 || p0 > 0 { p1++ }
       return p0, p1, err0 == nil && err1 == nil }
   None = ok false (both callers ignore the numbers then). *)
Definition parse_range (a : bytes) : option (Z * Z) :=
  match cut_byte DASH a with
  | None => None
  | Some (p0s, p1s) =>
      match parse_int p0s, parse_int p1s with
      | Some p0, Some p1 =>
          Some (p0, if (p1 >? 0) || (p0 >? 0) then wrap64 (p1 + 1) else p1)
      | _, _ => None
      end
  end.

(* ---------- ociserver.chunkRange ---------- *)

Inductive chunk_range_result :=
  | CROk (start end_ : Z)
  | CRBadRange              (* badAPIUseError: we don't understand your Content-Range *)
  | CRBadLength (implied : Z).   (* badAPIUseError: Content-Range implies a length of ... *)

(* [cr] = req.Header.Get("Content-Range"), [cl] = req.ContentLength (-1 = unknown) *)
Definition chunk_range (cr : bytes) (cl : Z) : chunk_range_result :=
  let parsed :=                                   (* Some (start, end, rangeOK) / None = error *)
    match cr with
    | [] => Some (0, 0, false)
    | _ => match parse_range cr with
           | Some (st, en) => Some (st, en, true)
           | None => None
           end
    end in
  match parsed with
  | None => CRBadRange
  | Some (start, end0, rangeOK) =>
      let end1 := if rangeOK && (cl >=? 0) && (start =? 0) && (end0 =? 0) && (cl =? 1) then 1 else end0 in
      let len := wrap64 (end1 - start) in                 (* rangeLength := end - start, in int64 *)
      if rangeOK && (cl >=? 0) && negb (len =? cl) then CRBadLength len
      else
        let end2 := if negb rangeOK && (cl >=? 0) then cl else end1 in
        CROk start end2
  end.

(* ---------- ociserver.parseRange (Range: bytes=a-b of blob GETs) ---------- *)

Definition is_ascii_space (c : N) : bool := ((c =? 32) || (c =? 9) || (c =? 10) || (c =? 13))%N.

Fixpoint trim_left (a : bytes) : bytes :=
  match a with
  | c :: a' => if is_ascii_space c then trim_left a' else a
  | [] => []
  end.
(* textproto.TrimString *)
Definition trim_string (a : bytes) : bytes := rev (trim_left (rev (trim_left a))).

(* strings.Split(a, ",") *)
Fixpoint split_byte (c : N) (a : bytes) : list bytes :=
  match a with
  | [] => [[]]
  | d :: a' =>
      if (d =? c)%N then [] :: split_byte c a'
      else match split_byte c a' with
           | cur :: rest => (d :: cur) :: rest
           | [] => [[d]]         (* unreachable: split_byte is never empty *)
           end
  end.

Record http_range := { hr_start : Z; hr_end : Z }.    (* end = -1: to the end of the blob *)

Inductive http_range_result :=
  | HROk (l : list http_range)
  | HRInvalid                    (* errors.New("invalid range") *)
  | HREndRelative.               (* errors.New("end-relative range not supported") *)

Definition BYTES_EQ : bytes := s "bytes=".

Fixpoint parse_http_ranges (parts : list bytes) (acc : list http_range) : http_range_result :=
  match parts with
  | [] => HROk (rev acc)
  | ra0 :: rest =>
      let ra := trim_string ra0 in
      match ra with
      | [] => parse_http_ranges rest acc
      | _ =>
          match cut_byte DASH ra with
          | None => HRInvalid
          | Some (st0, en0) =>
              let st := trim_string st0 in
              let en := trim_string en0 in
              match st with
              | [] =>
                  match en with
                  | [] => HRInvalid
                  | c :: _ => if (c =? 45)%N then HRInvalid else HREndRelative
                  end
              | _ =>
                  match parse_int st with
                  | None => HRInvalid
                  | Some i =>
                      if i <? 0 then HRInvalid
                      else
                        match en with
                        | [] => parse_http_ranges rest ({| hr_start := i; hr_end := -1 |} :: acc)
                        | _ =>
                            match parse_int en with
                            | None => HRInvalid
                            | Some j =>
                                if i >? j then HRInvalid
                                else parse_http_ranges rest ({| hr_start := i; hr_end := wrap64 (j + 1) |} :: acc)
                            end
                        end
                  end
              end
          end
      end
  end.

(* [a] = req.Header.Get("Range"); "" = header not present = (nil, nil) *)
Definition parse_http_range (a : bytes) : http_range_result :=
  match a with
  | [] => HROk []
  | _ =>
      if has_prefix BYTES_EQ a
      then parse_http_ranges (split_byte 44%N (skipn (List.length BYTES_EQ) a)) []
      else HRInvalid
  end.

(* ociclient.GetBlobRange: "bytes=%d-" when o1 < 0, else "bytes=%d-%d" (o0, o1-1) *)
Definition client_range_header (o0 o1 : Z) : bytes :=
  if o1 <? 0 then BYTES_EQ ++ fmt_int o0 ++ [DASH]
  else BYTES_EQ ++ fmt_int o0 ++ DASH :: fmt_int (wrap64 (o1 - 1)).

(* ociserver handleBlobGet: fmt.Sprintf("bytes %d-%d/%d", rng.start, rng.end-1, desc.Size) *)
Definition content_range_header (start end_ size : Z) : bytes :=
  s "bytes " ++ fmt_int start ++ DASH :: fmt_int (wrap64 (end_ - 1)) ++ 47%N :: fmt_int size.
