(* Model of ociregistry/ociauth/authfile.go ExecHelperWithEnv: the HelperRunner used when the
   caller passes none (LoadWithEnv(nil, env)).  It runs the program
   docker-credential-NAME with the argument get, the server URL on standard input and standard
   output and standard error collected in one buffer, and turns what happened into an entry and
   an error.

   What is data here and what is an oracle:
   - The operating system is data supplied per case: the directories of PATH in order, each a
     listing of file names to [pfile] (what kind of file it is and, for a program that can be
     started, how it ends for a given standard input).
   - exec.LookPath (os/exec lp_unix.go, names without a slash) is modelled as [look_path]: the
     first directory of PATH holding a regular file with an execute bit under that name wins;
     directories, files without an execute bit and dangling links are passed over; nothing found
     is exec.ErrNotFound.
   - cmd.Run on the file found: a file that the kernel refuses to start (no valid image, missing
     interpreter) gives an error that is neither exec.ErrNotFound nor an *exec.ExitError; a program
     that starts gives nil (exit status 0) or an *exec.ExitError (anything else, death by signal
     included).
   - json.Unmarshal of the helper's output into {Username, Secret} is a function argument
     ([unjson]: None = it returns an error); theorems quantify over it.
   - strings.TrimSpace is [trim_space] for ASCII output (the six ASCII white space bytes). *)
From Coq Require Import String.
From OCI Require Export Base.Outcome Model.AuthFile.

(* ---------- the operating system as os/exec sees it ---------- *)

(* how a started process ends: exit status zero or not, and stdout+stderr as written *)
Record pend := { pe_exit0 : bool; pe_out : bytes }.

Inductive pfile :=
  | FDir                                            (* a directory *)
  | FNoExec                                         (* a regular file without any execute bit *)
  | FDangling                                       (* a symbolic link to nothing *)
  | FBroken                                         (* regular, executable, but fork/exec fails *)
  | FProg (ans : list (bytes * pend)) (dflt : pend).  (* starts; standard input -> how it ends *)

Definition dir_t := list (bytes * pfile).

(* findExecutable: stat succeeds, not a directory, some execute bit *)
Definition is_program (f : pfile) : bool :=
  match f with FBroken | FProg _ _ => true | _ => false end.

(* LookPath for a name without a slash: for _, dir := range filepath.SplitList(path) *)
Fixpoint look_path (path : list dir_t) (file : bytes) : option pfile :=
  match path with
  | [] => None                                       (* &Error{file, ErrNotFound} *)
  | d :: rest =>
      match map_get file d with
      | Some f => if is_program f then Some f else look_path rest file
      | None => look_path rest file
      end
  end.

(* outcome of exec.Command(file, "get") with Stdin = stdin, followed by cmd.Run() *)
Inductive run_res :=
  | RNotFound                          (* errors.Is(err, exec.ErrNotFound) *)
  | RStartErr                          (* another error that is not an *exec.ExitError *)
  | RExit (ok : bool) (out : bytes).   (* nil / *exec.ExitError, and the buffer *)

Definition answer_for (ans : list (bytes * pend)) (dflt : pend) (stdin : bytes) : pend :=
  match map_get stdin ans with Some e => e | None => dflt end.

Definition cmd_run (path : list dir_t) (file stdin : bytes) : run_res :=
  match look_path path file with
  | None => RNotFound
  | Some (FProg ans dflt) => let e := answer_for ans dflt stdin in RExit (pe_exit0 e) (pe_out e)
  | Some _ => RStartErr
  end.

(* ---------- strings.TrimSpace on ASCII ---------- *)

Definition is_space (b : N) : bool :=
  (b =? 9) || (b =? 10) || (b =? 11) || (b =? 12) || (b =? 13) || (b =? 32).

Fixpoint trim_left_space (a : bytes) : bytes :=
  match a with
  | b :: r => if is_space b then trim_left_space r else a
  | [] => []
  end.

Definition trim_space (a : bytes) : bytes := rev (trim_left_space (rev (trim_left_space a))).

(* ---------- ExecHelperWithEnv ---------- *)

Definition helper_prefix : bytes := s "docker-credential-".
Definition not_found_msg : bytes := s "credentials not found in native keychain".
Definition token_user : bytes := s "<token>".

Definition exec_helper (unjson : bytes -> option (bytes * bytes)) (run : bytes -> bytes -> run_res)
  : runner_t :=
  fun helper host =>
    match run (helper_prefix ++ helper) host with
    | RNotFound => (zero_entry, HMissing)          (* fmt.Errorf("%w: %v", ErrHelperNotFound, err) *)
    | RStartErr => (zero_entry, HOther)            (* cannot run auth helper *)
    | RExit false out =>
        if beqb (trim_space out) not_found_msg then (zero_entry, HNil)
        else (zero_entry, HOther)                  (* error getting credentials *)
    | RExit true out =>
        match unjson out with
        | None => (zero_entry, HOther)             (* the decoder's error, returned as is *)
        | Some (user, secret) =>
            if beqb user token_user
            then ({| ce_refresh := secret; ce_access := []; ce_user := []; ce_pass := [] |}, HNil)
            else ({| ce_refresh := []; ce_access := []; ce_user := user; ce_pass := secret |}, HNil)
        end
    end.
