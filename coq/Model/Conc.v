(* Sectioned model of ociregistry/ocimem under concurrent use (C08).

   Every operation of Model/Mem.v is a short program of ATOMIC SECTIONS, one per critical
   region of the Go code (a maximal stretch holding Registry.mu and / or Buffer.mu); a
   thread is idle or at a program point of its current operation (idle threads invoke any operation);
   one small step runs one section of one thread on the shared [Mem.state].  Locals that
   the Go code carries from one section to the next are arguments of the program point.

   Go code followed (after the repair "ocimem-commit-atomic", see work/fixes):
     - every Registry method: Lock; defer Unlock; body            -> one section = Mem.step
     - PushBlob: ReadAll + CheckDescriptor without a lock, then one section that stores
     - Buffer.Write / Size / Cancel / ...: one section under Buffer.mu = Mem.step
     - Buffer.Commit:   commitMu.Lock (held to the end: other Commits on this buffer wait)
         A  checkCommit under Buffer.mu: commitErr? digest of buf = dig?  record desc, committed
         B  the commit callback under Registry.mu, calling GetBlob under Buffer.mu:
            committed? commitErr? len(buf) still = desc.Size (else record DIGEST_INVALID)?
            then  repo.blobs[desc.Digest] = buf ; Commit returns the descriptor recorded in A
         C  only when B failed: under Buffer.mu, commitErr = err unless one is recorded
   Buffer.commitMu is not part of the state: it is held exactly by the threads whose program
   point is after A and before the end of Commit, so "locked" is read off the thread list.

   [lp] marks the section that is the linearisation point of the operation (a ghost flag:
   it only tells the trace where the LP event goes).

   [structure] declares the lock structure of these sections in the vocabulary of
   Model/ConcStruct.v; Proofs/ConcStructure.v re-checks on every run that it equals the
   table extracted from the Go source. *)
From Coq Require Import String.
From OCI Require Export Model.Mem Model.ConcStruct.

Inductive pc :=
  | PStart (o : op)                           (* invoked, nothing executed yet *)
  | PCommitB (w : wid) (d : bytes) (de : desc) (* checkCommit passed and returned de *)
  | PCommitC (w : wid) (e : err)               (* the callback failed with e *)
  | PDone (r : result).                        (* about to return r *)

Definition e_digest_mismatch : err := E DIGEST_INVALID (s "digest mismatch").
Definition e_not_committed : err := e_plain (s "blob not committed").

Definition set_commit (de : desc) (b : buffer) : buffer :=
  {| u_repo := u_repo b; u_id := u_id b; u_buf := u_buf b; u_check := u_check b;
     u_committed := true; u_desc := de; u_err := None |}.
Definition set_err (e : err) (b : buffer) : buffer :=
  {| u_repo := u_repo b; u_id := u_id b; u_buf := u_buf b; u_check := u_check b;
     u_committed := u_committed b; u_desc := u_desc b; u_err := Some e |}.

Section Conc.
  Variable hash : bytes -> bytes.
  Variable valid_digest : bytes -> bool.
  Variable valid_repo : bytes -> bool.
  Variable valid_tag : bytes -> bool.
  Variable decode_image : bytes -> option image_manifest.
  Variable decode_index : bytes -> option index_manifest.
  Variable cfg : config.

  Definition mstep : registry state :=
    step hash valid_digest valid_repo valid_tag decode_image decode_index cfg.

  (* One atomic section.  [locked w]: some thread holds commitMu of buffer w.
     None = the section cannot start now (it waits for commitMu). *)
  Definition sec_step (locked : wid -> bool) (m : state) (p : pc) : option (state * bool * pc) :=
    match p with
    | PStart (PushBlob r de content) =>
        (* data, _ := io.ReadAll(content); CheckDescriptor(desc, data): no lock, no shared state *)
        match check_descriptor hash valid_digest de (Some content) with
        | Some e => Some (m, true, PDone (Err e))
        | None =>
            (* r.mu.Lock(); makeRepo; repo.blobs[desc.Digest] = ... *)
            match make_repo valid_repo m r with
            | None => Some (m, true, PDone (Err e_name_invalid))
            | Some m1 =>
                Some (upd_repo m1 r (rp_set_blob (d_digest de)
                                       {| b_media := d_media de; b_data := content; b_subject := [] |}),
                      true, PDone (Ok (RDesc de)))
            end
        end
    | PStart (WCommit w d) =>
        (* b.commitMu.Lock(); checkCommit(dig) under b.mu *)
        if locked w then None
        else
          match nth_error (bufs m) (N.to_nat w) with
          | None => Some (m, true, PDone (Err no_writer))
          | Some b =>
              match u_err b with
              | Some e => Some (m, true, PDone (Err e))
              | None =>
                  if beqb (hash (u_buf b)) d then
                    let de := octet_desc d (blen (u_buf b)) in
                    Some (with_buf m (N.to_nat w) (set_commit de), false, PCommitB w d de)
                  else
                    Some (with_buf m (N.to_nat w) (set_err e_digest_mismatch), true,
                          PDone (Err e_digest_mismatch))
              end
          end
    | PStart o =>
        (* r.mu.Lock(); defer r.mu.Unlock(); ...   /   b.mu.Lock(); defer b.mu.Unlock(); ... *)
        let (m', r) := mstep m o in Some (m', true, PDone r)
    | PCommitB w d de =>
        (* b.commit(b): r.mu.Lock(); desc, data, err := b.GetBlob() (b.mu) ; store *)
        match nth_error (bufs m) (N.to_nat w) with
        | None => Some (m, true, PDone (Err no_writer))
        | Some b =>
            if negb (u_committed b) then Some (m, true, PCommitC w e_not_committed)
            else
              match u_err b with
              | Some e => Some (m, true, PCommitC w e)
              | None =>
                  if negb (blen (u_buf b) =? d_size (u_desc b))%Z then
                    Some (with_buf m (N.to_nat w) (set_err e_digest_mismatch), true,
                          PCommitC w e_digest_mismatch)
                  else
                    Some (upd_repo m (u_repo b)
                            (rp_set_blob (d_digest (u_desc b))
                               {| b_media := d_media (u_desc b); b_data := u_buf b; b_subject := [] |}),
                          true, PDone (Ok (RDesc de)))
              end
        end
    | PCommitC w e =>
        (* b.mu.Lock(); if b.commitErr == nil { b.commitErr = err }; return err *)
        match nth_error (bufs m) (N.to_nat w) with
        | None => Some (m, false, PDone (Err e))
        | Some b =>
            match u_err b with
            | None => Some (with_buf m (N.to_nat w) (set_err e), false, PDone (Err e))
            | Some _ => Some (m, false, PDone (Err e))
            end
        end
    | PDone _ => None
    end.

  (* ------------------------------------------------------------ threads *)

  (* a thread is idle or inside one operation; an idle thread may invoke ANY operation next
     (the most general client) *)
  Record thread := { t_cur : option (op * pc) }.

  Definition holds (th : thread) (w : wid) : bool :=
    match t_cur th with
    | Some (_, PCommitB w' _ _) | Some (_, PCommitC w' _) => N.eqb w w'
    | _ => false
    end.
  Definition locked (ths : list thread) (w : wid) : bool := existsb (fun th => holds th w) ths.

  Record conf := { c_mem : state; c_threads : list thread }.

  Fixpoint set_nth {A} (i : nat) (a : A) (l : list A) : list A :=
    match l, i with
    | [], _ => []
    | _ :: l', O => a :: l'
    | b :: l', S i' => b :: set_nth i' a l'
    end.

  (* events of an execution, with the linearisation points made visible *)
  Inductive aev (Resp : Type) :=
    | AInv (t : nat) (o : op)
    | ALin (t : nat)
    | ARes (t : nat) (r : Resp).
  Arguments AInv {Resp}. Arguments ALin {Resp}. Arguments ARes {Resp}.

  Inductive cstep : conf -> list (aev result) -> conf -> Prop :=
    | CInvoke m ths t th o :
        nth_error ths t = Some th -> t_cur th = None ->
        cstep {| c_mem := m; c_threads := ths |} [AInv t o]
              {| c_mem := m; c_threads := set_nth t {| t_cur := Some (o, PStart o) |} ths |}
    | CSection m ths t th o p m' lp p' :
        nth_error ths t = Some th -> t_cur th = Some (o, p) ->
        sec_step (locked ths) m p = Some (m', lp, p') ->
        cstep {| c_mem := m; c_threads := ths |} (if lp : bool then [ALin t] else [])
              {| c_mem := m'; c_threads := set_nth t {| t_cur := Some (o, p') |} ths |}
    | CReturn m ths t th o r :
        nth_error ths t = Some th -> t_cur th = Some (o, PDone r) ->
        cstep {| c_mem := m; c_threads := ths |} [ARes t r]
              {| c_mem := m; c_threads := set_nth t {| t_cur := None |} ths |}.

  (* executions: the trace, and the shared states passed through (oldest first) *)
  Inductive csteps : conf -> list (aev result) -> list state -> conf -> Prop :=
    | CS_nil c : csteps c [] [c_mem c] c
    | CS_cons c l c1 tr ms c2 :
        cstep c l c1 -> csteps c1 tr ms c2 -> csteps c (l ++ tr) (c_mem c :: ms) c2.

  Definition idle (th : thread) : Prop := t_cur th = None.
  (* any number of threads, all idle, over the empty registry *)
  Definition initial (c : conf) : Prop := c_mem c = init /\ Forall idle (c_threads c).

  (* one thread running one operation to completion on its own *)
  Fixpoint run_pc (fuel : nat) (m : state) (p : pc) : state * result :=
    match p with
    | PDone r => (m, r)
    | _ =>
        match fuel with
        | O => (m, OutOfFuel)
        | S f =>
            match sec_step (fun _ => false) m p with
            | Some (m', _, p') => run_pc f m' p'
            | None => (m, OutOfFuel)
            end
        end
    end.
  Definition run_op (m : state) (o : op) : state * result := run_pc 3 m (PStart o).

  (* ------------------------------------------------------------ linearizability, as a specification *)

  (* What a trace with linearisation points must satisfy, written without the sectioned
     model: every operation takes effect atomically at its LP event, which lies between its
     invocation and its response; the effects, taken in LP order from [a], are those of the
     sequential registry [mstep]; the response reported is the one computed at the LP. *)
  Inductive tstat := TIdle | TPend (o : op) | TLin (r : result).
  Definition stmap := list (nat * tstat).
  Fixpoint sget (st : stmap) (t : nat) : tstat :=
    match st with
    | [] => TIdle
    | (t', x) :: st' => if Nat.eqb t t' then x else sget st' t
    end.
  Definition sset (st : stmap) (t : nat) (x : tstat) : stmap := (t, x) :: st.

  Section Aug.
    Context {Resp : Type}.
    Variable cmp : Resp -> result -> bool.

    Fixpoint aug_run (a : state) (st : stmap) (tr : list (aev Resp)) : option (state * stmap) :=
      match tr with
      | [] => Some (a, st)
      | AInv t o :: tr' =>
          match sget st t with
          | TIdle => aug_run a (sset st t (TPend o)) tr'
          | _ => None
          end
      | ALin t :: tr' =>
          match sget st t with
          | TPend o => let (a', r) := mstep a o in aug_run a' (sset st t (TLin r)) tr'
          | _ => None
          end
      | ARes t r :: tr' =>
          match sget st t with
          | TLin r' => if cmp r r' then aug_run a (sset st t TIdle) tr' else None
          | _ => None
          end
      end.
    Definition aug_ok (a : state) (st : stmap) (tr : list (aev Resp)) : bool :=
      match aug_run a st tr with Some _ => true | None => false end.

    (* the history: what can be observed from outside *)
    Fixpoint history (tr : list (aev Resp)) : list (aev Resp) :=
      match tr with
      | [] => []
      | ALin _ :: tr' => history tr'
      | e :: tr' => e :: history tr'
      end.

    (* a history is linearizable from [a] when LP events can be inserted that make it valid *)
    Definition linearizable_from (a : state) (h : list (aev Resp)) : Prop :=
      exists tr, history tr = h /\ aug_ok a [] tr = true.
  End Aug.
End Conc.

Arguments AInv {Resp}. Arguments ALin {Resp}. Arguments ARes {Resp}.

(* ---------------------------------------------------------------- declared lock structure *)

(* Interval by interval, the lock structure of the sections above; entries sorted by name as
   the extractor sorts them.  Buffer.ID / Close / ChunkSize touch nothing mutable.
   Buffer.GetBlob is exported and is what section B runs under Buffer.mu. *)
Definition reg_read : list interval := [seg [RegMu] [Rd CReg]].
Definition reg_write : list interval := [seg [RegMu] [Rd CReg; Wr CReg]].
Definition resume_intervals : list interval :=
  [seg [RegMu] [Rd CReg; Wr CReg];          (* makeRepo, repo.uploads *)
   seg [BufMu; RegMu] [Wr CBuf];            (* b.setStartOffset(offset) *)
   seg [RegMu] []].
Definition commit_intervals : list interval :=
  [seg [CommitMu] [];
   seg [CommitMu; BufMu] [Rd CBuf; Wr CBuf];            (* A: checkCommit *)
   seg [CommitMu] [];
   seg [CommitMu; RegMu] [];                            (* B: callback, r.mu.Lock() *)
   seg [CommitMu; BufMu; RegMu] [Rd CBuf; Wr CBuf];     (*    b.GetBlob() *)
   seg [CommitMu; RegMu] [Rd CReg; Wr CReg];            (*    repo.blobs[...] = ... *)
   seg [CommitMu] [];
   seg [CommitMu; BufMu] [Rd CBuf; Wr CBuf];            (* C: record the failure *)
   seg [CommitMu] []].

Definition structure : stable := [
  (s "Buffer.Cancel", [seg [BufMu] [Wr CBuf]]);
  (s "Buffer.ChunkSize", []);
  (s "Buffer.Close", []);
  (s "Buffer.Commit", commit_intervals);
  (s "Buffer.GetBlob", [seg [BufMu] [Rd CBuf; Wr CBuf]]);
  (s "Buffer.ID", []);
  (s "Buffer.Size", [seg [BufMu] [Rd CBuf]]);
  (s "Buffer.Write", [seg [BufMu] [Rd CBuf; Wr CBuf]]);
  (s "Registry.DeleteBlob", reg_write);
  (s "Registry.DeleteManifest", reg_write);
  (s "Registry.DeleteTag", reg_write);
  (s "Registry.GetBlob", reg_read);
  (s "Registry.GetBlobRange", reg_read);
  (s "Registry.GetManifest", reg_read);
  (s "Registry.GetTag", reg_read);
  (s "Registry.MountBlob", reg_write);
  (s "Registry.PushBlob", reg_write);
  (s "Registry.PushBlobChunked", resume_intervals);
  (s "Registry.PushBlobChunkedResume", resume_intervals);
  (s "Registry.PushManifest", reg_write);
  (s "Registry.Referrers", reg_read);
  (s "Registry.Repositories", reg_read);
  (s "Registry.ResolveBlob", reg_read);
  (s "Registry.ResolveManifest", reg_read);
  (s "Registry.ResolveTag", reg_read);
  (s "Registry.Tags", reg_read)
].

(* the table entry an operation of the model runs under *)
Definition op_name (o : op) : bytes :=
  match o with
  | GetBlob _ _ => s "Registry.GetBlob" | GetBlobRange _ _ _ _ => s "Registry.GetBlobRange"
  | GetManifest _ _ => s "Registry.GetManifest" | GetTag _ _ => s "Registry.GetTag"
  | ResolveBlob _ _ => s "Registry.ResolveBlob" | ResolveManifest _ _ => s "Registry.ResolveManifest"
  | ResolveTag _ _ => s "Registry.ResolveTag" | PushBlob _ _ _ => s "Registry.PushBlob"
  | PushBlobChunked _ _ => s "Registry.PushBlobChunked"
  | PushBlobChunkedResume _ _ _ _ => s "Registry.PushBlobChunkedResume"
  | MountBlob _ _ _ => s "Registry.MountBlob" | PushManifest _ _ _ _ => s "Registry.PushManifest"
  | DeleteBlob _ _ => s "Registry.DeleteBlob" | DeleteManifest _ _ => s "Registry.DeleteManifest"
  | DeleteTag _ _ => s "Registry.DeleteTag" | Repositories _ => s "Registry.Repositories"
  | Tags _ _ => s "Registry.Tags" | Referrers _ _ _ => s "Registry.Referrers"
  | WWrite _ _ => s "Buffer.Write" | WClose _ => s "Buffer.Close" | WSize _ => s "Buffer.Size"
  | WChunkSize _ => s "Buffer.ChunkSize" | WID _ => s "Buffer.ID" | WCommit _ _ => s "Buffer.Commit"
  | WCancel _ => s "Buffer.Cancel"
  end.
