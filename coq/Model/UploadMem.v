(* The in-memory registry (Model/Mem.v) as an upload backend, and the concrete stacks the
   property quantifies over: ocimem directly, client -> server -> ocimem (one hop), two
   hops, and ociunify over two in-memory registries. *)
From Coq Require Import String.
From OCI Require Export Model.Mem Model.Upload.

Local Open Scope Z_scope.

Section MemBackend.
  Variable hash : bytes -> bytes.
  Variable valid_digest : bytes -> bool.
  Variable valid_repo : bytes -> bool.
  Variable valid_tag : bytes -> bool.
  Variable decode_image : bytes -> option image_manifest.
  Variable decode_index : bytes -> option index_manifest.
  Variable cfg : config.

  Definition mstep : registry state :=
    step hash valid_digest valid_repo valid_tag decode_image decode_index cfg.

  (* an ocimem error carries its code and no HTTP status *)
  Definition uerr_of (e : err) : uerr := UE (e_code e) 0.

  Definition as_writer (r : state * result) : state * R uerr wid :=
    match r with
    | (st, Ok (RWriter i)) => (st, Ok i)
    | (st, Ok _) => (st, OutOfFuel)
    | (st, Err e) => (st, Err (uerr_of e))
    | (st, Panic) => (st, Panic)
    | (st, OutOfFuel) => (st, OutOfFuel)
    end.

  Definition as_unit (w : wid) (r : state * result) : state * wid * option uerr :=
    match r with
    | (st, Ok _) => (st, w, None)
    | (st, Err e) => (st, w, Some (uerr_of e))
    | (st, _) => (st, w, Some plain_error)
    end.

  Definition as_desc (w : wid) (r : state * result) : state * wid * R uerr desc :=
    match r with
    | (st, Ok (RDesc de)) => (st, w, Ok de)
    | (st, Ok _) => (st, w, OutOfFuel)
    | (st, Err e) => (st, w, Err (uerr_of e))
    | (st, Panic) => (st, w, Panic)
    | (st, OutOfFuel) => (st, w, OutOfFuel)
    end.

  Definition as_n (r : state * result) : Z :=
    match r with (_, Ok (RN n)) => n | _ => 0 end.
  Definition as_str (r : state * result) : bytes :=
    match r with (_, Ok (RStr a)) => a | _ => [] end.

  Definition mem_backend : ubackend state wid bytes :=
    {| ub_start := fun st r hint => as_writer (mstep st (PushBlobChunked r hint));
       ub_resume := fun st r id off hint => as_writer (mstep st (PushBlobChunkedResume r id off hint));
       ub_write := fun st w data => as_unit w (mstep st (WWrite w data));
       ub_close := fun st w => as_unit w (mstep st (WClose w));
       ub_commit := fun st w d => as_desc w (mstep st (WCommit w d));
       ub_size := fun st w => as_n (mstep st (WSize w));
       ub_chunk := fun st w => as_n (mstep st (WChunkSize w));
       ub_id := fun st w => as_str (mstep st (WID w)) |}.

  (* what the store holds: the committed blob, the bytes an upload session has received *)
  Definition mem_blob (st : state) (r d : bytes) : option bytes :=
    option_map b_data (iblob st r d).

  Definition mem_upload (st : state) (r id : bytes) : option buffer :=
    match get_repo st r with
    | Some rp => match alookup id (uploads rp) with
                 | Some i => nth_error (bufs st) (N.to_nat i)
                 | None => None
                 end
    | None => None
    end.

  Section Stacks.
    Variable pieces : bytes -> list bytes.

    Definition hop1 : ubackend state (bwriter bytes) (loc bytes) :=
      client_backend (serve mem_backend pieces).
    Definition hop2 : ubackend state (bwriter (loc bytes)) (loc (loc bytes)) :=
      client_backend (serve hop1 pieces).
    Definition unify_mem : ubackend (state * state) (uniwriter wid wid) (bytes * bytes) :=
      unify_backend mem_backend mem_backend.
    Definition unify_hop1 : ubackend (state * state) (uniwriter (bwriter bytes) (bwriter bytes)) (loc bytes * loc bytes) :=
      unify_backend hop1 hop1.
  End Stacks.
End MemBackend.
