(* Model of ociregistry/internal/ocirequest (request.go, create.go), followed line by line:
     Parse / parse            method + decoded URL path + raw query  ->  Request or error
     setListQueryParams, cutLast, ParseRange, RangeString
     Request.construct / Construct / MustConstruct / uploadPath / listParams / tagOrDigest
   and of the library functions these call, as far as their result is used:
     net/url      ParseQuery (parseQuery, QueryUnescape = unescape in query mode), Values.Get /
                  Set / Encode, QueryEscape and escape in path mode (shouldEscape), and url.Parse
                  restricted to strings that begin with "/v2/" (everything construct returns;
                  any other string is [OutOfFuel] = outside the model)
     strconv      Atoi / ParseInt(s, 10, 64) ([parse_int]); only success or failure is used
     encoding/base64  RawURLEncoding EncodeToString / DecodeString (go1.23 decodeQuantum with
                  NoPadding, non-strict: CR and LF are skipped anywhere)
     unicode/utf8 Valid
     strings      Cut, CutPrefix, CutSuffix, LastIndex
   The reference predicates come from Model/Ref.v (IsValidRepository / IsValidTag /
   IsValidDigest).  The only panic sites are IsValidTag (checkTag's s[0]), construct's
   default case (unreachable: the kind type has exactly the 17 kinds) and MustConstruct. *)
From Coq Require Import String.
From OCI Require Export Base.Outcome Base.Base64 Model.Ref Model.Errors.

(* ================================================================ strings *)

(* strings.CutPrefix *)
Definition cut_prefix (p a : bytes) : option bytes :=
  if has_prefix p a then Some (skipn (length p) a) else None.

(* strings.CutSuffix *)
Definition cut_suffix (q a : bytes) : option bytes :=
  if has_suffix q a then Some (firstn (length a - length q) a) else None.

(* cutLast(s, "/"): split around the last '/'.  [cut_last_rev] works on the reversed string:
   the first '/' of the reversal. *)
Definition cut_last (c : N) (a : bytes) : option (bytes * bytes) :=
  match cut_byte c (rev a) with
  | Some (after_r, before_r) => Some (rev before_r, rev after_r)
  | None => None
  end.

Definition contains_byte (c : N) (a : bytes) : bool := existsb (N.eqb c) a.

(* strings.Split(s, sep) for a one-byte separator *)
Fixpoint split_byte_aux (c : N) (a : bytes) (cur : bytes) : list bytes :=
  match a with
  | [] => [rev cur]
  | d :: a' => if N.eqb d c then rev cur :: split_byte_aux c a' [] else split_byte_aux c a' (d :: cur)
  end.
Definition split_byte (c : N) (a : bytes) : list bytes := split_byte_aux c a [].

(* ================================================================ strconv *)

Definition is_digit (c : N) : bool := (48 <=? c) && (c <=? 57).

Fixpoint digits_val (a : bytes) (acc : Z) : option Z :=
  match a with
  | [] => Some acc
  | c :: a' => if is_digit c then digits_val a' (acc * 10 + Z.of_N (c - 48))%Z else None
  end.

Definition min_int64 : Z := (- 9223372036854775808)%Z.
Definition max_int64 : Z := 9223372036854775807%Z.

(* strconv.ParseInt(s, 10, 64) and strconv.Atoi on a 64-bit platform: an optional sign, at
   least one digit, only digits (base 10 is given, so no underscores), value in range.
   None = any *NumError (syntax or range). *)
Definition parse_int (a : bytes) : option Z :=
  let '(neg, ds) := match a with
                    | 43 :: r => (false, r)
                    | 45 :: r => (true, r)
                    | _ => (false, a)
                    end in
  match ds with
  | [] => None
  | _ => match digits_val ds 0 with
         | None => None
         | Some v => let v' := if neg then (- v)%Z else v in
                     if ((min_int64 <=? v') && (v' <=? max_int64))%Z then Some v' else None
         end
  end.

(* int64 arithmetic wraps *)
Definition wrap64 (z : Z) : Z := ((z + 9223372036854775808) mod 18446744073709551616 - 9223372036854775808)%Z.

(* ================================================================ net/url *)

Definition ishex (c : N) : bool :=
  ((48 <=? c) && (c <=? 57)) || ((97 <=? c) && (c <=? 102)) || ((65 <=? c) && (c <=? 70)).
Definition unhex (c : N) : N :=
  if (48 <=? c) && (c <=? 57) then c - 48
  else if (97 <=? c) && (c <=? 102) then c - 87
  else if (65 <=? c) && (c <=? 70) then c - 55
  else 0.

(* unescape(s, mode): [plus] says whether '+' becomes a space (encodeQueryComponent) *)
Fixpoint unescape (plus : bool) (a : bytes) : option bytes :=
  match a with
  | [] => Some []
  | c :: r =>
      if c =? 37 then
        match r with
        | h1 :: h2 :: r' =>
            if ishex h1 && ishex h2 then
              match unescape plus r' with
              | Some t => Some ((unhex h1 * 16 + unhex h2) :: t)
              | None => None
              end
            else None
        | _ => None
        end
      else match unescape plus r with
           | Some t => Some ((if plus && (c =? 43) then 32 else c) :: t)
           | None => None
           end
  end.

Definition query_unescape := unescape true.
Definition path_unescape_mode := unescape false.

(* url.Values as the list of (key, value) pairs in order of insertion; the values of a key
   are the pairs with that key, in order. *)
Definition values := list (bytes * bytes).

(* Values.Get: the first value of the key, or "" *)
Fixpoint qget (k : bytes) (m : values) : bytes :=
  match m with
  | [] => []
  | (k', v) :: m' => if beqb k k' then v else qget k m'
  end.

(* Values.Set: the key now has exactly this value *)
Definition qset (k v : bytes) (m : values) : values :=
  filter (fun kv => negb (beqb k (fst kv))) m ++ [(k, v)].

(* strings.Cut(s, "&") etc. with "not found" giving (s, "") *)
Definition cut_or_all (c : N) (a : bytes) : bytes * bytes :=
  match cut_byte c a with
  | Some (l, r) => (l, r)
  | None => (a, [])
  end.

(* parseQuery: one "&"-separated piece at a time; [err] is the error so far.  A piece with a
   semicolon sets the error (unconditionally); a piece whose key or value does not unescape
   sets it if none is set; both kinds of piece are skipped. *)
Definition parse_query_piece (piece : bytes) (acc : values * bool) : values * bool :=
  let '(m, err) := acc in
  if contains_byte 59 piece then (m, true)
  else match piece with
       | [] => (m, err)
       | _ =>
           let '(k, v) := cut_or_all 61 piece in
           match query_unescape k with
           | None => (m, true)
           | Some k' =>
               match query_unescape v with
               | None => (m, true)
               | Some v' => (m ++ [(k', v')], err)
               end
           end
       end.

(* url.ParseQuery: (values, err != nil) *)
Definition parse_query (q : bytes) : values * bool :=
  match q with
  | [] => ([], false)
  | _ => fold_left (fun acc piece => parse_query_piece piece acc) (split_byte 38 q) ([], false)
  end.

(* shouldEscape(c, encodeQueryComponent) *)
Definition unreserved (c : N) : bool :=
  ((97 <=? c) && (c <=? 122)) || ((65 <=? c) && (c <=? 90)) || ((48 <=? c) && (c <=? 57))
  || (c =? 45) || (c =? 95) || (c =? 46) || (c =? 126).
Definition should_escape_query (c : N) : bool := negb (unreserved c).
(* shouldEscape(c, encodePath): of the reserved set $ & + , / : ; = ? @ only '?' is escaped *)
Definition should_escape_path (c : N) : bool :=
  if unreserved c then false
  else if (c =? 36) || (c =? 38) || (c =? 43) || (c =? 44) || (c =? 47) || (c =? 58)
          || (c =? 59) || (c =? 61) || (c =? 64) then false
  else true.

Definition upperhex (v : N) : N := if v <? 10 then 48 + v else 55 + v.

(* escape(s, mode) *)
Fixpoint escape (query : bool) (a : bytes) : bytes :=
  match a with
  | [] => []
  | c :: r =>
      if query && (c =? 32) then 43 :: escape query r
      else if (if query then should_escape_query c else should_escape_path c)
           then 37 :: upperhex (c / 16) :: upperhex (c mod 16) :: escape query r
           else c :: escape query r
  end.
Definition query_escape := escape true.
Definition path_escape_mode := escape false.

(* insertion sort of distinct keys, bytewise order (slices.Sort on strings) *)
Fixpoint insert_key (k : bytes) (l : list bytes) : list bytes :=
  match l with
  | [] => [k]
  | k' :: l' => match bcmp k k' with
                | Lt => k :: l
                | Eq => l
                | Gt => k' :: insert_key k l'
                end
  end.
Definition sorted_keys (m : values) : list bytes := fold_right (fun kv acc => insert_key (fst kv) acc) [] m.

(* Values.Encode *)
Definition encode_pairs (m : values) : list bytes :=
  flat_map (fun k => map (fun kv => query_escape k ++ 61 :: query_escape (snd kv))
                         (filter (fun kv => beqb k (fst kv)) m))
           (sorted_keys m).
Fixpoint join_amp (l : list bytes) : bytes :=
  match l with
  | [] => []
  | [a] => a
  | a :: l' => a ++ 38 :: join_amp l'
  end.
Definition values_encode (m : values) : bytes := join_amp (encode_pairs m).

(* ================================================================ base64.RawURLEncoding *)

Definition b64u_char (v : N) : N :=
  if v <? 26 then 65 + v
  else if v <? 52 then 71 + v
  else if v <? 62 then v - 4
  else if v =? 62 then 45           (* - *)
  else 95.                          (* _ *)

Definition b64u_decode_map (c : N) : option N :=
  if (65 <=? c) && (c <=? 90) then Some (c - 65)
  else if (97 <=? c) && (c <=? 122) then Some (c - 71)
  else if (48 <=? c) && (c <=? 57) then Some (c + 4)
  else if c =? 45 then Some 62
  else if c =? 95 then Some 63
  else None.

(* EncodeToString without padding *)
Fixpoint b64u_encode (l : bytes) : bytes :=
  match l with
  | [] => []
  | [a] => [b64u_char (a / 4); b64u_char ((a mod 4) * 16)]
  | [a; b] => [b64u_char (a / 4); b64u_char ((a mod 4) * 16 + b / 16); b64u_char ((b mod 16) * 4)]
  | a :: b :: c :: r =>
      b64u_char (a / 4) :: b64u_char ((a mod 4) * 16 + b / 16)
        :: b64u_char ((b mod 16) * 4 + c / 64) :: b64u_char (c mod 64) :: b64u_encode r
  end.

(* the sextets of the input with CR / LF dropped; None on any other byte outside the alphabet
   (with NoPadding the pad character is -1, so '=' is corrupt input like any other byte) *)
Fixpoint b64u_sextets (src : bytes) : option (list N) :=
  match src with
  | [] => Some []
  | c :: r =>
      if (c =? 10) || (c =? 13) then b64u_sextets r
      else match b64u_decode_map c, b64u_sextets r with
           | Some v, Some t => Some (v :: t)
           | _, _ => None
           end
  end.

(* quanta of four sextets; a final quantum of two or three sextets gives one or two bytes
   (non-strict: the unused low bits are not checked); a single left-over sextet is corrupt *)
Fixpoint b64u_quanta (l : list N) : option bytes :=
  match l with
  | [] => Some []
  | [_] => None
  | [d0; d1] => Some [qbyte0 (quantum_val d0 d1 0 0)]
  | [d0; d1; d2] =>
      let v := quantum_val d0 d1 d2 0 in Some [qbyte0 v; qbyte1 v]
  | d0 :: d1 :: d2 :: d3 :: r =>
      let v := quantum_val d0 d1 d2 d3 in
      match b64u_quanta r with
      | Some t => Some (qbyte0 v :: qbyte1 v :: qbyte2 v :: t)
      | None => None
      end
  end.

Definition b64u_decode (src : bytes) : option bytes :=
  match b64u_sextets src with
  | Some l => b64u_quanta l
  | None => None
  end.

(* ================================================================ utf8.Valid *)

Definition cont (c : N) : bool := (128 <=? c) && (c <=? 191).
Definition in_rng (lo hi c : N) : bool := (lo <=? c) && (c <=? hi).

Fixpoint utf8_valid (a : bytes) : bool :=
  match a with
  | [] => true
  | c :: r =>
      if c <? 128 then utf8_valid r
      else if in_rng 194 223 c then
        match r with c1 :: r1 => cont c1 && utf8_valid r1 | _ => false end
      else if in_rng 224 239 c then
        match r with
        | c1 :: c2 :: r2 =>
            (if c =? 224 then in_rng 160 191 c1 else if c =? 237 then in_rng 128 159 c1 else cont c1)
            && cont c2 && utf8_valid r2
        | _ => false
        end
      else if in_rng 240 244 c then
        match r with
        | c1 :: c2 :: c3 :: r3 =>
            (if c =? 240 then in_rng 144 191 c1 else if c =? 244 then in_rng 128 143 c1 else cont c1)
            && cont c2 && cont c3 && utf8_valid r3
        | _ => false
        end
      else false
  end.

(* ================================================================ Request *)

Inductive kind :=
  | ReqPing
  | ReqBlobGet | ReqBlobHead | ReqBlobDelete
  | ReqBlobStartUpload | ReqBlobUploadBlob | ReqBlobMount
  | ReqBlobUploadInfo | ReqBlobUploadChunk | ReqBlobCompleteUpload
  | ReqManifestGet | ReqManifestHead | ReqManifestPut | ReqManifestDelete
  | ReqTagsList | ReqReferrersList | ReqCatalogList.

Definition kind_index (k : kind) : N :=
  match k with
  | ReqPing => 0 | ReqBlobGet => 1 | ReqBlobHead => 2 | ReqBlobDelete => 3
  | ReqBlobStartUpload => 4 | ReqBlobUploadBlob => 5 | ReqBlobMount => 6
  | ReqBlobUploadInfo => 7 | ReqBlobUploadChunk => 8 | ReqBlobCompleteUpload => 9
  | ReqManifestGet => 10 | ReqManifestHead => 11 | ReqManifestPut => 12 | ReqManifestDelete => 13
  | ReqTagsList => 14 | ReqReferrersList => 15 | ReqCatalogList => 16
  end.
Definition kind_eqb (a b : kind) : bool := kind_index a =? kind_index b.

Record request := mkreq {
  q_kind : kind;
  q_repo : bytes; q_digest : bytes; q_tag : bytes; q_from : bytes; q_upload : bytes;
  q_listn : Z;            (* Go zero value 0; -1 = all *)
  q_last : bytes
}.

Definition zero_request : request := mkreq ReqPing [] [] [] [] [] 0 [].
Definition set_kind (k : kind) (r : request) := mkreq k (q_repo r) (q_digest r) (q_tag r) (q_from r) (q_upload r) (q_listn r) (q_last r).
Definition set_repo (v : bytes) (r : request) := mkreq (q_kind r) v (q_digest r) (q_tag r) (q_from r) (q_upload r) (q_listn r) (q_last r).
Definition set_digest (v : bytes) (r : request) := mkreq (q_kind r) (q_repo r) v (q_tag r) (q_from r) (q_upload r) (q_listn r) (q_last r).
Definition set_tag (v : bytes) (r : request) := mkreq (q_kind r) (q_repo r) (q_digest r) v (q_from r) (q_upload r) (q_listn r) (q_last r).
Definition set_from (v : bytes) (r : request) := mkreq (q_kind r) (q_repo r) (q_digest r) (q_tag r) v (q_upload r) (q_listn r) (q_last r).
Definition set_upload (v : bytes) (r : request) := mkreq (q_kind r) (q_repo r) (q_digest r) (q_tag r) (q_from r) v (q_listn r) (q_last r).
Definition set_listn (v : Z) (r : request) := mkreq (q_kind r) (q_repo r) (q_digest r) (q_tag r) (q_from r) (q_upload r) v (q_last r).
Definition set_last (v : bytes) (r : request) := mkreq (q_kind r) (q_repo r) (q_digest r) (q_tag r) (q_from r) (q_upload r) (q_listn r) v.

Definition request_eqb (a b : request) : bool :=
  kind_eqb (q_kind a) (q_kind b) && beqb (q_repo a) (q_repo b) && beqb (q_digest a) (q_digest b)
  && beqb (q_tag a) (q_tag b) && beqb (q_from a) (q_from b) && beqb (q_upload a) (q_upload b)
  && Z.eqb (q_listn a) (q_listn b) && beqb (q_last a) (q_last b).

(* The error value parse returns (before Parse wraps it in *ParseError):
   one of the four sentinels (compared with == by the server), or any other error value. *)
Inductive perr :=
  | PSentinel (k : parse_kind)     (* ErrNotFound / ErrBadlyFormedDigest / ErrMethodNotAllowed; never POther.
                                      PBadRequest never occurs bare: it is always wrapped, see below *)
  | PErr (e : gerr).

Definition err_page_not_found : bytes := s "page not found".
Definition err_badly_formed_digest : bytes := s "badly formed digest".
Definition err_method_not_allowed : bytes := s "method not allowed".
Definition err_bad_request : bytes := s "bad request".

Definition sentinel_text (k : parse_kind) : bytes :=
  match k with
  | PNotFound => err_page_not_found
  | PBadlyFormedDigest => err_badly_formed_digest
  | PMethodNotAllowed => err_method_not_allowed
  | PBadRequest => err_bad_request
  | POther => []
  end.

(* the value of parse's error as a Go error tree *)
Definition perr_gerr (e : perr) : gerr :=
  match e with
  | PSentinel k => Plain (sentinel_text k)
  | PErr g => g
  end.

Definition m_GET := s "GET".
Definition m_HEAD := s "HEAD".
Definition m_POST := s "POST".
Definition m_PUT := s "PUT".
Definition m_PATCH := s "PATCH".
Definition m_DELETE := s "DELETE".

Section Parse.
  Variable linked : alg -> bool.

  Definition PR := R perr request.

  (* lift a predicate of Ref.v (its only non-Ok outcome is Panic) *)
  Definition pred (r : R unit bool) (k : bool -> PR) : PR :=
    match r with
    | Ok b => k b
    | Err _ => Panic
    | Panic => Panic
    | OutOfFuel => OutOfFuel
    end.

  Definition valid_repo (w : bytes) := is_valid_repository w.
  Definition valid_digest (w : bytes) := is_valid_digest linked w.
  Definition valid_tag (w : bytes) := is_valid_tag w.

  (* setListQueryParams *)
  Definition set_list_query_params (rreq : request) (urlq : values) : R perr request :=
    let rreq := set_listn (-1) rreq in
    let nstr := qget (s "n") urlq in
    let r1 := match nstr with
              | [] => Ok rreq
              | _ => match parse_int nstr with
                     | None => Err (PErr (Wrap (s "n is not a valid integer: ") (Plain err_bad_request)))
                     | Some n => Ok (set_listn n rreq)
                     end
              end in
    match r1 with
    | Ok rreq => Ok (set_last (qget (s "last") urlq) rreq)
    | other => other
    end.

  Definition name_invalid : perr := PErr (std_err SNameInvalid).
  Definition digest_invalid : perr := PErr (std_err SDigestInvalid).

  (* the part of parse after "/v2/" has been cut *)
  Definition parse_req_rest (method path : bytes) (urlq : values) : PR :=
    let rreq := zero_request in
    if beqb path (s "_catalog") then
      if negb (beqb method m_GET) then Err (PSentinel PMethodNotAllowed)
      else
        (* the error result of setListQueryParams is dropped here *)
        match set_list_query_params (set_kind ReqCatalogList rreq) urlq with
        | Ok r => Ok r
        | _ => Ok (set_listn (-1) (set_kind ReqCatalogList rreq))
        end
    else
    let upload := match cut_suffix (s "/blobs/uploads/") path with
                  | Some p => Some p
                  | None => cut_suffix (s "/blobs/uploads") path
                  end in
    match upload with
    | Some uploadPath =>
        let rreq := set_repo uploadPath rreq in
        pred (valid_repo (q_repo rreq)) (fun ok =>
        if negb ok then Err name_invalid
        else if negb (beqb method m_POST) then Err (PSentinel PMethodNotAllowed)
        else
          let d := qget (s "mount") urlq in
          match d with
          | _ :: _ =>
              let rreq := set_digest d rreq in
              pred (valid_digest (q_digest rreq)) (fun ok =>
              if negb ok then Err digest_invalid
              else
                let rreq := set_from (qget (s "from") urlq) rreq in
                match q_from rreq with
                | [] => Ok (set_digest [] (set_kind ReqBlobStartUpload rreq))
                | _ =>
                    pred (valid_repo (q_from rreq)) (fun ok =>
                    if negb ok then Err name_invalid
                    else Ok (set_kind ReqBlobMount rreq))
                end)
          | [] =>
              let d := qget (s "digest") urlq in
              match d with
              | _ :: _ =>
                  let rreq := set_digest d rreq in
                  pred (valid_digest d) (fun ok =>
                  if negb ok then Err (PSentinel PBadlyFormedDigest)
                  else Ok (set_kind ReqBlobUploadBlob rreq))
              | [] => Ok (set_kind ReqBlobStartUpload rreq)
              end
          end)
    | None =>
    match cut_last 47 path with
    | None => Err (PSentinel PNotFound)
    | Some (path, last) =>
    match cut_last 47 path with
    | None => Err (PSentinel PNotFound)
    | Some (path, lastButOne) =>
      if beqb lastButOne (s "blobs") then
        let rreq := set_repo path rreq in
        pred (valid_digest last) (fun ok =>
        if negb ok then Err (PSentinel PBadlyFormedDigest)
        else pred (valid_repo (q_repo rreq)) (fun ok =>
        if negb ok then Err name_invalid
        else
          let rreq := set_digest last rreq in
          if beqb method m_GET then Ok (set_kind ReqBlobGet rreq)
          else if beqb method m_HEAD then Ok (set_kind ReqBlobHead rreq)
          else if beqb method m_DELETE then Ok (set_kind ReqBlobDelete rreq)
          else Err (PSentinel PMethodNotAllowed)))
      else if beqb lastButOne (s "uploads") then
        match cut_suffix (s "/blobs") path with
        | None => Err (PSentinel PNotFound)
        | Some repo =>
            let rreq := set_repo repo rreq in
            pred (valid_repo (q_repo rreq)) (fun ok =>
            if negb ok then Err name_invalid
            else
              let uploadID64 := last in
              match uploadID64 with
              | [] => Err (PSentinel PNotFound)
              | _ =>
                  match b64u_decode uploadID64 with
                  | None => Err (PErr (Plain (s "invalid upload ID (cannot decode)")))
                  | Some uploadID =>
                      if negb (utf8_valid uploadID)
                      then Err (PErr (Plain (s "upload ID decoded to invalid utf8")))
                      else
                        let rreq := set_upload uploadID rreq in
                        if beqb method m_GET then Ok (set_kind ReqBlobUploadInfo rreq)
                        else if beqb method m_PATCH then Ok (set_kind ReqBlobUploadChunk rreq)
                        else if beqb method m_PUT then
                          let rreq := set_digest (qget (s "digest") urlq) (set_kind ReqBlobCompleteUpload rreq) in
                          pred (valid_digest (q_digest rreq)) (fun ok =>
                          if negb ok then Err (PSentinel PBadlyFormedDigest) else Ok rreq)
                        else Err (PSentinel PMethodNotAllowed)
                  end
              end)
        end
      else if beqb lastButOne (s "manifests") then
        let rreq := set_repo path rreq in
        pred (valid_repo (q_repo rreq)) (fun ok =>
        if negb ok then Err name_invalid
        else
          pred (valid_digest last) (fun isd =>
          let k (rreq : request) : PR :=
            if beqb method m_GET then Ok (set_kind ReqManifestGet rreq)
            else if beqb method m_HEAD then Ok (set_kind ReqManifestHead rreq)
            else if beqb method m_PUT then Ok (set_kind ReqManifestPut rreq)
            else if beqb method m_DELETE then Ok (set_kind ReqManifestDelete rreq)
            else Err (PSentinel PMethodNotAllowed) in
          if isd then k (set_digest last rreq)
          else pred (valid_tag last) (fun ist =>
               if ist then k (set_tag last rreq) else Err (PSentinel PNotFound))))
      else if beqb lastButOne (s "tags") then
        if negb (beqb last (s "list")) then Err (PSentinel PNotFound)
        else
          match set_list_query_params rreq urlq with
          | Ok rreq =>
              if negb (beqb method m_GET) then Err (PSentinel PMethodNotAllowed)
              else
                let rreq := set_repo path rreq in
                pred (valid_repo (q_repo rreq)) (fun ok =>
                if negb ok then Err name_invalid
                else Ok (set_kind ReqTagsList rreq))
          | other => other
          end
      else if beqb lastButOne (s "referrers") then
        pred (valid_digest last) (fun ok =>
        if negb ok then Err (PSentinel PBadlyFormedDigest)
        else if negb (beqb method m_GET) then Err (PSentinel PMethodNotAllowed)
        else
          let rreq := set_repo path rreq in
          pred (valid_repo (q_repo rreq)) (fun ok =>
          if negb ok then Err name_invalid
          else Ok (set_kind ReqReferrersList (set_digest last (set_listn (-1) rreq)))))
      else Err (PSentinel PNotFound)
    end
    end
    end.

  (* func parse(method string, u *url.URL): u.Path is [path], u.RawQuery is [rawquery] *)
  Definition parse_req (method path rawquery : bytes) : PR :=
    let '(urlq, qerr) := parse_query rawquery in
    if qerr then Err (PErr (Plain (s "invalid query")))
    else if beqb path (s "/v2") || beqb path (s "/v2/") then Ok (set_kind ReqPing zero_request)
    else match cut_prefix (s "/v2/") path with
         | None => Err (PErr (Wire (W (std_code SNameUnknown) (s "unknown URL path") None)))
         | Some rest => parse_req_rest method rest urlq
         end.

  (* ============================================================== create.go *)

  Definition upload_path (req : request) : bytes :=
    s "/v2/" ++ q_repo req ++ s "/blobs/uploads/" ++ b64u_encode (q_upload req).

  Definition list_params (req : request) : bytes :=
    let q : values := [] in
    let q := if (0 <=? q_listn req)%Z then qset (s "n") (dec_Z (q_listn req)) q else q in
    let q := match q_last req with [] => q | l => qset (s "last") l q end in
    match q with
    | [] => []
    | _ => 63 :: values_encode q
    end.

  Definition tag_or_digest (req : request) : bytes :=
    match q_tag req with [] => q_digest req | t => t end.

  (* func (req *Request) construct() (method string, url string).  The default case
     panic("invalid request kind") has no counterpart: [kind] has exactly the 17 kinds. *)
  Definition construct (req : request) : bytes * bytes :=
    match q_kind req with
    | ReqPing => (m_GET, s "/v2/")
    | ReqBlobGet => (m_GET, s "/v2/" ++ q_repo req ++ s "/blobs/" ++ q_digest req)
    | ReqBlobHead => (m_HEAD, s "/v2/" ++ q_repo req ++ s "/blobs/" ++ q_digest req)
    | ReqBlobDelete => (m_DELETE, s "/v2/" ++ q_repo req ++ s "/blobs/" ++ q_digest req)
    | ReqBlobStartUpload => (m_POST, s "/v2/" ++ q_repo req ++ s "/blobs/uploads/")
    | ReqBlobUploadBlob => (m_POST, s "/v2/" ++ q_repo req ++ s "/blobs/uploads/?digest=" ++ q_digest req)
    | ReqBlobMount => (m_POST, s "/v2/" ++ q_repo req ++ s "/blobs/uploads/?mount=" ++ q_digest req ++ s "&from=" ++ q_from req)
    | ReqBlobUploadInfo => (m_GET, upload_path req)
    | ReqBlobUploadChunk => (m_PATCH, upload_path req)
    | ReqBlobCompleteUpload => (m_PUT, upload_path req ++ s "?digest=" ++ q_digest req)
    | ReqManifestGet => (m_GET, s "/v2/" ++ q_repo req ++ s "/manifests/" ++ tag_or_digest req)
    | ReqManifestHead => (m_HEAD, s "/v2/" ++ q_repo req ++ s "/manifests/" ++ tag_or_digest req)
    | ReqManifestPut => (m_PUT, s "/v2/" ++ q_repo req ++ s "/manifests/" ++ tag_or_digest req)
    | ReqManifestDelete => (m_DELETE, s "/v2/" ++ q_repo req ++ s "/manifests/" ++ tag_or_digest req)
    | ReqTagsList => (m_GET, s "/v2/" ++ q_repo req ++ s "/tags/list" ++ list_params req)
    | ReqReferrersList => (m_GET, s "/v2/" ++ q_repo req ++ s "/referrers/" ++ q_digest req)
    | ReqCatalogList => (m_GET, s "/v2/_catalog" ++ list_params req)
    end.

  (* url.Parse for a string that begins with "/v2/" (no scheme, no authority: getScheme stops
     at the leading '/', the string does not begin with "//"):
       - a control byte (< 0x20 or 0x7f) anywhere is an error,
       - the fragment is cut at the first '#' (and must unescape),
       - a single trailing '?' is ForceQuery, otherwise RawQuery is what follows the first '?',
       - Path is the rest, unescaped in path mode (setPath).
     Result: Ok (Path, RawQuery); Err = url.Parse failed; OutOfFuel = a string outside the
     modelled class (does not begin with "/v2/"). *)
  Definition is_ctl (c : N) : bool := (c <? 32) || (c =? 127).

  Definition url_parse_v2 (u : bytes) : R unit (bytes * bytes) :=
    if negb (has_prefix (s "/v2/") u) then OutOfFuel
    else
      let '(u1, frag) := cut_or_all 35 u in
      if existsb is_ctl u1 then Err tt else
      match unescape false frag with
      | None => Err tt
      | Some _ =>
          let '(rest, rawq) := cut_or_all 63 u1 in
          match unescape false rest with
          | None => Err tt
          | Some path => Ok (path, rawq)
          end
      end.

  (* func (req *Request) Construct() (method, ustr string, err error):
     Ok (method, url) / Err = "invalid OCI request" / Panic from the validators *)
  Definition Construct (req : request) : R unit (bytes * bytes) :=
    let '(method, ustr) := construct req in
    match url_parse_v2 ustr with
    | Ok (path, rawq) =>
        match parse_req method path rawq with
        | Ok _ => Ok (method, ustr)
        | Err _ => Err tt
        | Panic => Panic
        | OutOfFuel => OutOfFuel
        end
    | Err _ => Err tt
    | Panic => Panic
    | OutOfFuel => OutOfFuel
    end.

  (* MustConstruct: panic(err) *)
  Definition MustConstruct (req : request) : R unit (bytes * bytes) :=
    match Construct req with
    | Err _ => Panic
    | other => other
    end.

End Parse.

(* ================================================================ ParseRange / RangeString *)

(* func ParseRange(s string) (start, end int64, ok bool): Content-Range "a-b"; the end is made
   exclusive when [p1 > 0 || p0 > 0] (only "0-0" stays the empty range).  The values returned
   with ok = false are never used by the callers. *)
Definition parse_range (a : bytes) : option (Z * Z) :=
  match cut_byte 45 a with
  | None => None
  | Some (p0s, p1s) =>
      match parse_int p0s, parse_int p1s with
      | Some p0, Some p1 => Some (p0, if ((0 <? p1) || (0 <? p0))%Z then wrap64 (p1 + 1) else p1)
      | _, _ => None
      end
  end.

(* func RangeString(start, end int64) string *)
Definition range_string (start end_ : Z) : bytes :=
  let e := wrap64 (end_ - 1) in
  let e := if (e <? 0)%Z then 0%Z else e in
  dec_Z start ++ 45 :: dec_Z e.

(* ================================================================ what the router promises *)

Definition vrepo (w : bytes) : bool := match is_valid_repository w with Ok true => true | _ => false end.
Definition vtag (w : bytes) : bool := match is_valid_tag w with Ok true => true | _ => false end.
Definition vdigest (linked : alg -> bool) (w : bytes) : bool :=
  match is_valid_digest linked w with Ok true => true | _ => false end.

(* the names of a request that will reach the backend are valid, by kind *)
Definition request_fields_ok (linked : alg -> bool) (r : request) : bool :=
  let repo_ok := vrepo (q_repo r) in
  let dig_ok := vdigest linked (q_digest r) in
  let ref_ok := match q_tag r with [] => dig_ok | t => vtag t && beqb (q_digest r) [] end in
  match q_kind r with
  | ReqPing | ReqCatalogList => true
  | ReqBlobGet | ReqBlobHead | ReqBlobDelete | ReqBlobUploadBlob | ReqBlobCompleteUpload
  | ReqReferrersList => repo_ok && dig_ok
  | ReqBlobMount => repo_ok && dig_ok && vrepo (q_from r)
  | ReqBlobStartUpload | ReqBlobUploadInfo | ReqBlobUploadChunk | ReqTagsList => repo_ok
  | ReqManifestGet | ReqManifestHead | ReqManifestPut | ReqManifestDelete => repo_ok && ref_ok
  end.
