(* The ociregistry.Interface vocabulary shared by every layer model: descriptors,
   error codes, operations (the 18 methods + BlobWriter operations) and results.
   Every layer (in-memory registry, wrappers, client, server backend) is a value of
   type [registry St]. *)
From Coq Require Import String.
From OCI Require Export Base.Outcome.

Record desc := { d_media : bytes; d_digest : bytes; d_size : Z; d_artifact : bytes }.

Definition desc_eqb (a b : desc) : bool :=
  beqb (d_media a) (d_media b) && beqb (d_digest a) (d_digest b)
  && Z.eqb (d_size a) (d_size b) && beqb (d_artifact a) (d_artifact b).

Lemma desc_eqb_eq a b : desc_eqb a b = true <-> a = b.
Proof.
  destruct a, b; unfold desc_eqb; cbn. rewrite !andb_true_iff, !beqb_eq, Z.eqb_eq.
  split; [intros [[[-> ->] ->] ->]; reflexivity | intros H; injection H; auto].
Qed.

Definition zero_desc : desc := {| d_media := []; d_digest := []; d_size := 0; d_artifact := [] |}.

(* OCI error codes (ociregistry/error.go).  [ENone] = a plain Go error that carries no
   code (it is reported as UNKNOWN with status 500 when it crosses the wire). *)
Inductive ecode :=
  | BLOB_UNKNOWN | BLOB_UPLOAD_INVALID | BLOB_UPLOAD_UNKNOWN | DIGEST_INVALID
  | MANIFEST_BLOB_UNKNOWN | MANIFEST_INVALID | MANIFEST_UNKNOWN | NAME_INVALID | NAME_UNKNOWN
  | SIZE_INVALID | UNAUTHORIZED | DENIED | UNSUPPORTED | TOOMANYREQUESTS | RANGE_INVALID
  | ECustom (c : bytes)
  | ENone.

Definition ecode_eqb (a b : ecode) : bool :=
  match a, b with
  | BLOB_UNKNOWN, BLOB_UNKNOWN | BLOB_UPLOAD_INVALID, BLOB_UPLOAD_INVALID
  | BLOB_UPLOAD_UNKNOWN, BLOB_UPLOAD_UNKNOWN | DIGEST_INVALID, DIGEST_INVALID
  | MANIFEST_BLOB_UNKNOWN, MANIFEST_BLOB_UNKNOWN | MANIFEST_INVALID, MANIFEST_INVALID
  | MANIFEST_UNKNOWN, MANIFEST_UNKNOWN | NAME_INVALID, NAME_INVALID | NAME_UNKNOWN, NAME_UNKNOWN
  | SIZE_INVALID, SIZE_INVALID | UNAUTHORIZED, UNAUTHORIZED | DENIED, DENIED
  | UNSUPPORTED, UNSUPPORTED | TOOMANYREQUESTS, TOOMANYREQUESTS | RANGE_INVALID, RANGE_INVALID
  | ENone, ENone => true
  | ECustom x, ECustom y => beqb x y
  | _, _ => false
  end.

Lemma ecode_eqb_eq a b : ecode_eqb a b = true <-> a = b.
Proof.
  destruct a, b; cbn; split; try congruence; try reflexivity.
  - intros H. apply beqb_eq in H. now subst.
  - intros H. injection H as ->. apply beqb_refl.
Qed.

(* An error value as far as the layers above can tell: its code, and an opaque tag that
   stands for everything else (message, wrapping) so that "the same error is passed
   through" is expressible. *)
Record err := E { e_code : ecode; e_tag : bytes }.

Definition err_eqb (a b : err) : bool := ecode_eqb (e_code a) (e_code b) && beqb (e_tag a) (e_tag b).
Lemma err_eqb_eq a b : err_eqb a b = true <-> a = b.
Proof.
  destruct a, b; unfold err_eqb; cbn. rewrite andb_true_iff, ecode_eqb_eq, beqb_eq.
  split; [intros [-> ->]; reflexivity | intros H; injection H; auto].
Qed.

(* writer handles: an index chosen by the layer that created the writer *)
Definition wid := N.

Inductive op :=
  | GetBlob (r d : bytes) | GetBlobRange (r d : bytes) (o0 o1 : Z) | GetManifest (r d : bytes)
  | GetTag (r t : bytes) | ResolveBlob (r d : bytes) | ResolveManifest (r d : bytes)
  | ResolveTag (r t : bytes)
  | PushBlob (r : bytes) (de : desc) (content : bytes)
  | PushBlobChunked (r : bytes) (hint : Z)
  | PushBlobChunkedResume (r id : bytes) (off hint : Z)
  | MountBlob (from to d : bytes)
  | PushManifest (r t content media : bytes)
  | DeleteBlob (r d : bytes) | DeleteManifest (r d : bytes) | DeleteTag (r t : bytes)
  | Repositories (start : bytes) | Tags (r start : bytes) | Referrers (r d art : bytes)
  (* BlobWriter operations on a writer obtained earlier *)
  | WWrite (w : wid) (data : bytes) | WClose (w : wid) | WSize (w : wid) | WChunkSize (w : wid)
  | WID (w : wid) | WCommit (w : wid) (d : bytes) | WCancel (w : wid).

Inductive res :=
  | RDesc (d : desc)                          (* Resolve*, Push*, MountBlob, Commit *)
  | RRead (d : desc) (data : bytes)           (* a BlobReader read to EOF *)
  | RList (l : list bytes) (e : option err)   (* an iterator drained: items, then maybe an error *)
  | RDescs (l : list desc) (e : option err)
  | RWriter (w : wid)
  | RN (n : Z)                                (* Write count, Size, ChunkSize *)
  | RStr (s : bytes)                          (* ID *)
  | RUnit.                                    (* Delete*, Close, Cancel *)

Definition result := R err res.

Definition registry (St : Type) := St -> op -> St * result.

(* run a history, collecting results *)
Fixpoint run {St} (step : registry St) (s : St) (h : list op) : St * list result :=
  match h with
  | [] => (s, [])
  | o :: h' => let '(s1, r) := step s o in
               let '(s2, rs) := run step s1 h' in (s2, r :: rs)
  end.

Definition final {St} (step : registry St) (s : St) (h : list op) : St := fst (run step s h).

Lemma final_app {St} (step : registry St) s h1 h2 :
  final step s (h1 ++ h2) = final step (final step s h1) h2.
Proof.
  unfold final. revert s; induction h1 as [|o h1 IH]; intros s; cbn; [reflexivity|].
  destruct (step s o) as [s1 r]. specialize (IH s1).
  destruct (run step s1 (h1 ++ h2)) as [a b] eqn:E1.
  destruct (run step s1 h1) as [c d] eqn:E2. cbn in *. exact IH.
Qed.

Lemma final_cons {St} (step : registry St) s o h :
  final step s (o :: h) = final step (fst (step s o)) h.
Proof.
  unfold final. cbn. destruct (step s o) as [s1 r]. cbn. destruct (run step s1 h). reflexivity.
Qed.

(* generic invariant lifting: what holds initially and is preserved by every step holds
   after every history *)
Lemma invariant_final {St} (step : registry St) (Inv : St -> Prop) :
  (forall s o, Inv s -> Inv (fst (step s o))) ->
  forall h s, Inv s -> Inv (final step s h).
Proof.
  intros Hstep h; induction h as [|o h IH]; intros s Hs; [exact Hs|].
  rewrite final_cons. apply IH. now apply Hstep.
Qed.

(* which repository names an operation mentions (for the wrappers) *)
Definition op_repos (o : op) : list bytes :=
  match o with
  | GetBlob r _ | GetBlobRange r _ _ _ | GetManifest r _ | GetTag r _ | ResolveBlob r _
  | ResolveManifest r _ | ResolveTag r _ | PushBlob r _ _ | PushBlobChunked r _
  | PushBlobChunkedResume r _ _ _ | PushManifest r _ _ _ | DeleteBlob r _ | DeleteManifest r _
  | DeleteTag r _ | Tags r _ | Referrers r _ _ => [r]
  | MountBlob f t _ => [f; t]
  | _ => []
  end.
