(* Model of ociregistry/ociauth/scope.go (whole file), as it stands in /repo after the
   repair "an empty repository name is not a known scope" (work/fixes/scope-empty-repository.msg).

   The Go representation is kept: a Scope is
       original     string            the text it was parsed from
       unlimited    bool
       repositories []string          sorted; "" is the CatalogScope sentinel
       actions      []byte            parallel to repositories: bitmask of 1<<knownAction
       others       []ResourceScope   sorted, everything without a compact form
   and every function below follows the Go function of the same name statement by
   statement.  Conventions used for the translation:

   * [strings.Compare] / [ResourceScope.Compare] return a [comparison] (Lt/Eq/Gt for -1/0/1),
     so the [default: panic("unreachable")] arm of Union's switch has no counterpart.
   * A loop [for i, repo := range s.repositories { ... s.actions[i] ... }], and the merge
     loops that advance i1/i2 over repositories and actions together, run over
     [entries s = combine repositories actions].  If the two slices had different lengths
     Go would panic with an index out of range where the model silently stops; [wf]
     (proved for every scope the exported API can build) says the lengths agree.
   * [append] to a slice whose last element is inspected (NewScope) is a cons on the
     reversed accumulator; the result is reversed once at the end.
   * Explicit panic outcomes: [Len] on the unlimited scope; in [Holds] the index
     [s.actions[i]] and the indexing inside the binary search ([Panic]), and the fuel of
     the binary-search loop ([OutOfFuel]).
   * Library functions are modelled by what they are documented to do:
     slices.SortFunc = insertion sort (Base/Sorted.v), slices.Compact, slices.Equal,
     slices.BinarySearch(Func) = the loop of the Go source, strings.Fields (including
     the Unicode white space runes it recognises), strings.Split on a one-byte
     separator, bits.OnesCount8, strings.Builder = append to a byte list. *)
From Coq Require Import String.
From OCI Require Export Base.Outcome Base.Sorted.

(* ---------- ResourceScope ---------- *)

Record rscope := RS { rtype : bytes; rres : bytes; ract : bytes }.

Definition TypeRepository : bytes := s "repository".
Definition TypeRegistry : bytes := s "registry".
Definition ActionPull : bytes := s "pull".
Definition ActionPush : bytes := s "push".

(* func (rs1 ResourceScope) Compare(rs2 ResourceScope) int *)
Definition rs_cmp (a b : rscope) : comparison :=
  match bcmp (rtype a) (rtype b) with
  | Eq => match bcmp (rres a) (rres b) with
          | Eq => bcmp (ract a) (ract b)
          | c => c
          end
  | c => c
  end.

Definition rs_lt (a b : rscope) : Prop := rs_cmp a b = Lt.

(* Go's == on the struct *)
Definition rs_eqb (a b : rscope) : bool :=
  beqb (rtype a) (rtype b) && beqb (rres a) (rres b) && beqb (ract a) (ract b).

(* knownAction: unknownAction = 0, pullAction = 1, pushAction = 2, numActions = 3 *)
Definition unknownAction : N := 0.
Definition pullAction : N := 1.
Definition pushAction : N := 2.
Definition numActions : N := 3.

(* func (a knownAction) String() string *)
Definition known_action_string (a : N) : bytes :=
  if a =? pullAction then ActionPull
  else if a =? pushAction then ActionPush
  else s "unknown".

(* func parseKnownAction(s string) knownAction *)
Definition parse_known_action (a : bytes) : N :=
  if beqb a ActionPull then pullAction
  else if beqb a ActionPush then pushAction
  else unknownAction.

Definition CatalogScope : rscope := RS TypeRegistry (s "catalog") (s "*").

(* func (rs ResourceScope) isKnown() bool    -- repaired: an empty repository name is
   reserved for the catalog sentinel and is therefore not "known" *)
Definition is_known (rs : rscope) : bool :=
  if beqb (rtype rs) TypeRepository then
    negb (beqb (rres rs) []) && negb (parse_known_action (ract rs) =? unknownAction)
  else if beqb (rtype rs) TypeRegistry then rs_eqb rs CatalogScope
  else false.

(* ---------- Scope ---------- *)

Record scope := {
  original : bytes;
  unlimited : bool;
  repositories : list bytes;
  actions : list N;
  others : list rscope
}.

(* the zero value: the empty set *)
Definition zero_scope : scope :=
  {| original := []; unlimited := false; repositories := []; actions := []; others := [] |}.

Definition entries (sc : scope) : list (bytes * N) := combine (repositories sc) (actions sc).

Definition with_original (sc : scope) (t : bytes) : scope :=
  {| original := t; unlimited := unlimited sc; repositories := repositories sc;
     actions := actions sc; others := others sc |}.

(* ---------- strings.Fields, strings.Split ---------- *)

Definition ascii_space (c : N) : bool :=
  (c =? 9) || (c =? 10) || (c =? 11) || (c =? 12) || (c =? 13) || (c =? 32).

(* width in bytes of the white space rune (unicode.IsSpace) that starts the string, 0 when
   none does: the six ASCII ones, U+0085, U+00A0, U+1680, U+2000..U+200A, U+2028, U+2029,
   U+202F, U+205F, U+3000 in UTF-8.  Their lead bytes C2/E1/E2/E3 are never continuation
   bytes, so wherever such a sequence occurs Go's decoder starts a rune there. *)
Definition space_width (a : bytes) : nat :=
  match a with
  | [] => O
  | c :: r =>
      if ascii_space c then 1%nat
      else if c =? 194 then
        match r with
        | d :: _ => if (d =? 133) || (d =? 160) then 2%nat else O
        | [] => O
        end
      else if c =? 225 then
        match r with
        | d :: e :: _ => if (d =? 154) && (e =? 128) then 3%nat else O
        | _ => O
        end
      else if c =? 226 then
        match r with
        | d :: e :: _ =>
            if (d =? 128) && (((128 <=? e) && (e <=? 138)) || (e =? 168) || (e =? 169) || (e =? 175)) then 3%nat
            else if (d =? 129) && (e =? 159) then 3%nat
            else O
        | _ => O
        end
      else if c =? 227 then
        match r with
        | d :: e :: _ => if (d =? 128) && (e =? 128) then 3%nat else O
        | _ => O
        end
      else O
  end.

Definition cons_nonempty (f : bytes) (fs : list bytes) : list bytes :=
  match f with [] => fs | _ => f :: fs end.

(* (the field that is open at the front of the string, the fields after it);
   [skip] = bytes of a multi-byte white space rune still to be dropped *)
Fixpoint fields_from (skip : nat) (a : bytes) : bytes * list bytes :=
  match a with
  | [] => ([], [])
  | c :: r =>
      match skip with
      | S k => let (cur, fs) := fields_from k r in ([], cons_nonempty cur fs)
      | O =>
          match space_width a with
          | O => let (cur, fs) := fields_from 0 r in (c :: cur, fs)
          | S k => let (cur, fs) := fields_from k r in ([], cons_nonempty cur fs)
          end
      end
  end.

(* strings.Fields *)
Definition fields (a : bytes) : list bytes :=
  let (cur, fs) := fields_from 0 a in cons_nonempty cur fs.

(* strings.Split(a, string(c)) *)
Fixpoint split_byte (c : N) (a : bytes) : list bytes :=
  match a with
  | [] => [[]]
  | d :: r =>
      if d =? c then [] :: split_byte c r
      else match split_byte c r with
           | h :: t => (d :: h) :: t
           | [] => [[d]]
           end
  end.

Definition colon : N := 58.
Definition comma : N := 44.
Definition space : N := 32.

(* ---------- NewScope ---------- *)

(* the loop [for _, rs := range rss]; rrepos/racts/rothers are s.repositories, s.actions,
   s.others in reverse (head = last appended) *)
Fixpoint new_loop (rss : list rscope) (rrepos : list bytes) (racts : list N) (rothers : list rscope)
  : list bytes * list N * list rscope :=
  match rss with
  | [] => (rev rrepos, rev racts, rev rothers)
  | rs :: rest =>
      if negb (is_known rs) then new_loop rest rrepos racts (rs :: rothers)
      else if beqb (rtype rs) TypeRegistry then
        (* CatalogScope *)
        new_loop rest ([] :: rrepos) (N.shiftl 1 pullAction :: racts) rothers
      else
        let actionMask := N.shiftl 1 (parse_known_action (ract rs)) in
        match rrepos, racts with
        | last :: _, a :: racts' =>
            if beqb last (rres rs) then new_loop rest rrepos (N.lor a actionMask :: racts') rothers
            else new_loop rest (rres rs :: rrepos) (actionMask :: racts) rothers
        | _, _ => new_loop rest (rres rs :: rrepos) (actionMask :: racts) rothers
        end
  end.

(* func NewScope(rss ...ResourceScope) Scope *)
Definition NewScope (rss : list rscope) : scope :=
  let rss1 := compact rs_eqb (isort rs_cmp rss) in
  let '(repos, acts, oth) := new_loop rss1 [] [] [] in
  {| original := []; unlimited := false; repositories := repos; actions := acts;
     others := compact rs_eqb (isort rs_cmp oth) |}.

(* ---------- ParseScope ---------- *)

(* body of [for _, f := range fields] *)
Definition parse_field (f : bytes) : list rscope :=
  match split_byte colon f with
  | [p0; p1; p2] => map (fun action => RS p0 p1 action) (split_byte comma p2)
  | _ => [RS f [] []]
  end.

Definition parse_rscopes (t : bytes) : list rscope := flat_map parse_field (fields t).

(* func ParseScope(s string) Scope *)
Definition ParseScope (t : bytes) : scope := with_original (NewScope (parse_rscopes t)) t.

(* ---------- Len, UnlimitedScope, IsUnlimited, IsEmpty ---------- *)

(* bits.OnesCount8 *)
Definition ones_count8 (b : N) : nat :=
  List.length (filter (N.testbit b) [0; 1; 2; 3; 4; 5; 6; 7]).

(* func (s Scope) Len() int *)
Definition Len (sc : scope) : R unit nat :=
  if unlimited sc then Panic
  else Ok (fold_left (fun n b => (n + ones_count8 b)%nat) (actions sc) (List.length (others sc))).

Definition UnlimitedScope : scope :=
  {| original := []; unlimited := true; repositories := []; actions := []; others := [] |}.

Definition IsUnlimited (sc : scope) : bool := unlimited sc.

Definition IsEmpty (sc : scope) : bool :=
  (List.length (repositories sc) =? 0)%nat && (List.length (others sc) =? 0)%nat && negb (unlimited sc).

(* ---------- Iter ---------- *)

Section Iter.
  (* the consumer: [yield0 r st = (st', go_on)] *)
  Context {St : Type} (yield0 : rscope -> St -> St * bool).

  (* inside the closure [yield]:  for len(others) > 0 && others[0].Compare(scope) < 0 *)
  Fixpoint yield_others (oth : list rscope) (r : rscope) (st : St) : St * list rscope * bool :=
    match oth with
    | o :: rest =>
        match rs_cmp o r with
        | Lt => let (st1, go) := yield0 o st in
                if go then yield_others rest r st1 else (st1, oth, false)
        | _ => (st, oth, true)
        end
    | [] => (st, [], true)
    end.

  (* the closure [yield]; the captured variable [others] is threaded through *)
  Definition yield (oth : list rscope) (r : rscope) (st : St) : St * list rscope * bool :=
    let '(st1, oth1, go) := yield_others oth r st in
    if go then let (st2, go2) := yield0 r st1 in (st2, oth1, go2) else (st1, oth1, false).

  (* for k := knownAction(0); k < numActions; k++ *)
  Fixpoint iter_actions (ks : list N) (repo : bytes) (acts : N) (oth : list rscope) (st : St)
    : St * list rscope * bool :=
    match ks with
    | [] => (st, oth, true)
    | k :: ks' =>
        if N.land acts (N.shiftl 1 k) =? 0 then iter_actions ks' repo acts oth st
        else
          let '(st1, oth1, go) := yield oth (RS TypeRepository repo (known_action_string k)) st in
          if go then iter_actions ks' repo acts oth1 st1 else (st1, oth1, false)
    end.

  Definition all_actions : list N := [0; 1; 2].

  (* for i, repo := range s.repositories *)
  Fixpoint iter_repos (es : list (bytes * N)) (oth : list rscope) (st : St) : St * list rscope * bool :=
    match es with
    | [] => (st, oth, true)
    | (repo, acts) :: es' =>
        let '(st1, oth1, go) :=
          if beqb repo [] then yield oth CatalogScope st
          else iter_actions all_actions repo acts oth st in
        if go then iter_repos es' oth1 st1 else (st1, oth1, false)
    end.

  (* for _, rscope := range others *)
  Fixpoint iter_rest (oth : list rscope) (st : St) : St :=
    match oth with
    | [] => st
    | o :: rest => let (st1, go) := yield0 o st in if go then iter_rest rest st1 else st1
    end.

  (* func (s Scope) Iter() func(yield func(ResourceScope) bool) *)
  Definition Iter (sc : scope) (st : St) : St :=
    if unlimited sc then st
    else
      let '(st1, oth1, go) := iter_repos (entries sc) (others sc) st in
      if go then iter_rest oth1 st1 else st1.
End Iter.

(* all items, consumer never declines *)
Definition IterList (sc : scope) : list rscope :=
  rev (Iter (fun r acc => (r :: acc, true)) sc []).

(* the items handed to a consumer that declines its (n+1)-th item (it is called n+1 times) *)
Definition IterStop (n : nat) (sc : scope) : list rscope :=
  rev (Iter (fun r acc => (r :: acc, (List.length acc <? n)%nat)) sc []).

(* ---------- Equal ---------- *)

(* func (s1 Scope) Equal(s2 Scope) bool *)
Definition Equal (s1 s2 : scope) : bool :=
  Bool.eqb (unlimited s1) (unlimited s2)
  && list_eqb beqb (repositories s1) (repositories s2)
  && list_eqb N.eqb (actions s1) (actions s2)
  && list_eqb rs_eqb (others s1) (others s2).

(* ---------- Union ---------- *)

(* first merge loop, with the two tail appends *)
Fixpoint union_repos (e1 : list (bytes * N)) : list (bytes * N) -> list (bytes * N) :=
  fix inner (e2 : list (bytes * N)) : list (bytes * N) :=
    match e1, e2 with
    | [], _ => e2
    | _, [] => e1
    | (repo1, a1) :: t1, (repo2, a2) :: t2 =>
        match bcmp repo1 repo2 with
        | Eq => (repo1, N.lor a1 a2) :: union_repos t1 t2
        | Lt => (repo1, a1) :: union_repos t1 e2
        | Gt => (repo2, a2) :: inner t2
        end
    end.

(* second merge loop *)
Fixpoint union_others (o1 : list rscope) : list rscope -> list rscope :=
  fix inner (o2 : list rscope) : list rscope :=
    match o1, o2 with
    | [], _ => o2
    | _, [] => o1
    | a1 :: t1, a2 :: t2 =>
        match rs_cmp a1 a2 with
        | Eq => a1 :: union_others t1 t2
        | Lt => a1 :: union_others t1 o2
        | Gt => a2 :: inner t2
        end
    end.

(* func (s1 Scope) Union(s2 Scope) Scope *)
Definition Union (s1 s2 : scope) : scope :=
  if IsUnlimited s1 || IsUnlimited s2 then UnlimitedScope
  else if IsEmpty s2 || Equal s1 s2 then s1
  else
    let e := union_repos (entries s1) (entries s2) in
    let r := {| original := []; unlimited := false;
                repositories := map fst e; actions := map snd e;
                others := union_others (others s1) (others s2) |} in
    if Equal r s1 then s1 else r.

(* ---------- Holds ---------- *)

(* func (s Scope) Holds(r ResourceScope) bool *)
Definition Holds (sc : scope) (r : rscope) : R unit bool :=
  if IsUnlimited sc then Ok true
  else if rs_eqb r CatalogScope then
    do (_, ok) <- bsearch bcmp (repositories sc) [];
    Ok ok
  else
    let in_others :=
      do (_, ok) <- bsearch rs_cmp (others sc) r;
      Ok ok in
    if beqb (rtype r) TypeRepository && negb (beqb (rres r) []) then
      let action := parse_known_action (ract r) in
      if negb (action =? unknownAction) then
        do (i, ok) <- bsearch bcmp (repositories sc) (rres r);
        if negb ok then Ok false
        else match nth_error (actions sc) i with
             | None => Panic
             | Some a => Ok (negb (N.land a (N.shiftl 1 action) =? 0))
             end
      else in_others
    else in_others.

(* ---------- Contains ---------- *)

(* inner loop [for i1 < len(s1.repositories)] for one repo2: None = return false,
   Some rest = continue outer1 with i1 advanced past the match *)
Fixpoint contains_scan_repo (e1 : list (bytes * N)) (repo2 : bytes) (a2 : N) : option (list (bytes * N)) :=
  match e1 with
  | [] => None
  | (repo1, a1) :: rest1 =>
      match bcmp repo1 repo2 with
      | Gt => None
      | Eq => if negb (N.land a1 a2 =? a2) then None else Some rest1
      | Lt => contains_scan_repo rest1 repo2 a2
      end
  end.

Fixpoint contains_repos (e1 e2 : list (bytes * N)) : bool :=
  match e2 with
  | [] => true
  | (repo2, a2) :: rest2 =>
      match contains_scan_repo e1 repo2 a2 with
      | None => false
      | Some rest1 => contains_repos rest1 rest2
      end
  end.

Fixpoint contains_scan_other (o1 : list rscope) (sc2 : rscope) : option (list rscope) :=
  match o1 with
  | [] => None
  | sc1 :: rest1 =>
      match rs_cmp sc1 sc2 with
      | Gt => None
      | Eq => Some rest1
      | Lt => contains_scan_other rest1 sc2
      end
  end.

Fixpoint contains_others (o1 o2 : list rscope) : bool :=
  match o2 with
  | [] => true
  | sc2 :: rest2 =>
      match contains_scan_other o1 sc2 with
      | None => false
      | Some rest1 => contains_others rest1 rest2
      end
  end.

(* func (s1 Scope) Contains(s2 Scope) bool *)
Definition Contains (s1 s2 : scope) : bool :=
  if IsUnlimited s1 then true
  else if IsUnlimited s2 then false
  else contains_repos (entries s1) (entries s2) && contains_others (others s1) (others s2).

(* ---------- Canonical, String ---------- *)

(* func (s Scope) Canonical() Scope *)
Definition Canonical (sc : scope) : scope := with_original sc [].

(* the function literal handed to s.Iter() in String; state = (buf, prev) *)
Definition string_step (r : rscope) (st : bytes * rscope) : (bytes * rscope) * bool :=
  let '(buf, prev0) := st in
  if beqb (rtype r) TypeRepository && beqb (rtype prev0) TypeRepository && beqb (rres r) (rres prev0)
  then ((buf ++ [comma] ++ ract r, r), true)
  else
    let buf1 := if (0 <? List.length buf)%nat then buf ++ [space] else buf in
    let buf2 := buf1 ++ rtype r in
    let buf3 := if negb (beqb (rres r) []) || negb (beqb (ract r) [])
                then buf2 ++ [colon] ++ rres r ++ [colon] ++ ract r
                else buf2 in
    ((buf3, r), true).

(* func (s Scope) String() string *)
Definition String (sc : scope) : bytes :=
  if IsUnlimited sc then s "*"
  else if negb (beqb (original sc) []) || IsEmpty sc then original sc
  else fst (Iter string_step sc ([], RS [] [] [])).

(* ---------- specification vocabulary ---------- *)

(* what one (repository, mask) entry stands for: exactly what Iter produces for it *)
Definition expand (e : bytes * N) : list rscope :=
  let (repo, acts) := e in
  if beqb repo [] then [CatalogScope]
  else flat_map (fun k => if N.land acts (N.shiftl 1 k) =? 0 then []
                          else [RS TypeRepository repo (known_action_string k)]) all_actions.

Definition known_list (es : list (bytes * N)) : list rscope := flat_map expand es.

(* the set a scope denotes, as the strictly ascending list of its triples
   (for the unlimited scope: no explicit triples) *)
Definition abs (sc : scope) : list rscope :=
  if unlimited sc then []
  else compact rs_eqb (isort rs_cmp (known_list (entries sc) ++ others sc)).

Definition mask_ok (e : bytes * N) : Prop :=
  let (repo, m) := e in
  if beqb repo [] then m = 2 else (m = 2 \/ m = 4 \/ m = 6).

Definition same_fields (a b : scope) : Prop :=
  unlimited a = unlimited b /\ repositories a = repositories b /\ actions a = actions b /\ others a = others b.

(* the representation invariant *)
Record wf (sc : scope) : Prop := {
  wf_len : List.length (repositories sc) = List.length (actions sc);
  wf_repos : StronglySorted blt (repositories sc);
  wf_masks : Forall mask_ok (entries sc);
  wf_others : StronglySorted rs_lt (others sc);
  wf_unknown : Forall (fun r => is_known r = false) (others sc);
  wf_unl : unlimited sc = true -> sc = UnlimitedScope;
  (* the text, when there is one, parses to this very scope *)
  wf_text : original sc <> [] -> same_fields sc (NewScope (parse_rscopes (original sc)))
}.

(* every way the exported API builds a Scope *)
Inductive sexp :=
  | ENew (l : list rscope)
  | EParse (t : bytes)
  | EUnlimited
  | EUnion (a b : sexp)
  | ECanonical (a : sexp).

Fixpoint eval (e : sexp) : scope :=
  match e with
  | ENew l => NewScope l
  | EParse t => ParseScope t
  | EUnlimited => UnlimitedScope
  | EUnion a b => Union (eval a) (eval b)
  | ECanonical a => Canonical (eval a)
  end.

(* fields for which the print/parse round trip is claimed: non-empty, no white space, no
   colon, no comma (no byte that starts a white space rune) *)
Definition clean_byte (c : N) : bool :=
  negb (ascii_space c) && negb (c =? colon) && negb (c =? comma)
  && negb ((c =? 194) || (c =? 225) || (c =? 226) || (c =? 227)).

Definition clean_field (f : bytes) : bool :=
  match f with [] => false | _ => forallb clean_byte f end.

Definition clean_rs (r : rscope) : bool :=
  clean_field (rtype r) && clean_field (rres r) && clean_field (ract r).

Definition clean (sc : scope) : Prop := forallb clean_rs (abs sc) = true.
