(* trimErrorCodePrefix as it was before the repair "MarshalError keeps an empty message empty"
   (ociregistry/error.go before that fix): only "<code text>: " was stripped, so the bare
   code text WireError.Error makes of an empty message became the message one hop later.
   Kept for the refutation witness in Props/C07.v. *)
From Coq Require Import String.
From OCI Require Export Base.Outcome Model.Errors.

Section Legacy.
  Variable sprefix : Z -> bytes.
  Variable cprefix : bytes -> bytes.

  Definition trim_error_code_prefix_legacy (e : gerr) (status : Z) (code : bytes) : bytes :=
    let msg := text sprefix cprefix e in
    let msg := if Z.eqb status 0 then msg else trim_prefix (sprefix status ++ colon_sp) msg in
    let msg := match code with [] => msg | _ => trim_prefix (cprefix code ++ colon_sp) msg end in
    msg.

  (* the message MarshalError sent *)
  Definition wmsg_legacy (e : gerr) : bytes :=
    trim_error_code_prefix_legacy e (marshal_status e) (marshal_code e).

  (* a body-carrying hop without handler / client wrapping, with the old trimming *)
  Definition hop_legacy (e : gerr) : gerr :=
    Http (marshal_status e) (Some (Wires [W (marshal_code e) (wmsg_legacy e) (marshal_detail e)])) true.
End Legacy.
