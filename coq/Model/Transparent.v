(* C03, the property written down directly: what it means for a registry reached through
   ociclient -> ociserver (any option set, one or two hops, with or without ocidebug) to
   behave like the registry behind it.

   Nothing here is a model of the client or of the server.  There are three parts:

   1. [rel cfg l o d v]: the answer [v] obtained through the stack to operation [o] is the
      same as the answer [d] of the registry called directly, on the observables the
      property names (success / failure, OCI error code, descriptor digest / size / media
      type, bytes, listings), with exactly two identifications:
        (a) the HEAD-based resolves compare the HTTP status of the code ([status_class]);
        (b) on a repository that holds no content ([has_content], the definition of C02's
            reference registry) "unknown repository" and the empty / X_UNKNOWN answer are
            the same answer, and such repositories are ignored in the catalogue.
   2. [trace_ok]: the backend received exactly the operations the caller issued, with the
      caller's arguments: the table [expected_calls].
   3. [view]: the interim prediction of the stack's answer from the direct answer (identity
      except the HEAD code table and the recorded known deviations), and [known_shape], the
      precise shapes of those deviations.  Builder B2's composed model replaces [view]. *)
From Coq Require Import String.
From OCI Require Export Obs.MemObs Model.MemSpec.
From OCI Require Import Model.Errors.

(* ------------------------------------------------------------------ configurations *)

Record sopts := {
  so_omit_digest : bool;      (* OmitDigestFromTagGetResponse *)
  so_omit_link : bool;        (* OmitLinkHeaderFromResponses *)
  so_max_page : Z;            (* MaxListPageSize *)
  so_no_single_post : bool    (* DisableSinglePostUpload *)
}.

(* [caller] -> client(k_page) -> server(k_opts1) [-> client(k_page2) -> server(k_opts2)] -> backend *)
Record scfg := {
  k_hops : N;
  k_opts1 : sopts;
  k_opts2 : sopts;
  k_dbg_backend : bool;
  k_dbg_client : bool;
  k_page : Z;                 (* ListPageSize of the caller's client; <= 0: the default *)
  k_page2 : Z
}.

Definition default_opts : sopts :=
  {| so_omit_digest := false; so_omit_link := false; so_max_page := 0; so_no_single_post := false |}.

Definition page_eff (p : Z) : Z := if (p <=? 0)%Z then 1000%Z else p.

(* MaxListPageSize > 0 refuses a list request whose n is larger (documented purpose of the
   option: it emulates a registry that does so); the request never reaches the backend *)
Definition hop_refuses (o : sopts) (page : Z) : bool :=
  (0 <? so_max_page o)%Z && (so_max_page o <? page_eff page)%Z.

Definition two_hops (cfg : scfg) : bool := (k_hops cfg =? 2)%N.

Definition refuses_lists (cfg : scfg) : bool :=
  hop_refuses (k_opts1 cfg) (k_page cfg)
  || (two_hops cfg && hop_refuses (k_opts2 cfg) (k_page2 cfg)).

Definition is_listing (o : op) : bool :=
  match o with Repositories _ | Tags _ _ => true | _ => false end.

(* ------------------------------------------------------------------ codes and statuses *)

Definition code_bytes (c : ecode) : bytes :=
  match c with
  | BLOB_UNKNOWN => std_code SBlobUnknown
  | BLOB_UPLOAD_INVALID => std_code SBlobUploadInvalid
  | BLOB_UPLOAD_UNKNOWN => std_code SBlobUploadUnknown
  | DIGEST_INVALID => std_code SDigestInvalid
  | MANIFEST_BLOB_UNKNOWN => std_code SManifestBlobUnknown
  | MANIFEST_INVALID => std_code SManifestInvalid
  | MANIFEST_UNKNOWN => std_code SManifestUnknown
  | NAME_INVALID => std_code SNameInvalid
  | NAME_UNKNOWN => std_code SNameUnknown
  | SIZE_INVALID => std_code SSizeInvalid
  | UNAUTHORIZED => std_code SUnauthorized
  | DENIED => std_code SDenied
  | UNSUPPORTED => std_code SUnsupported
  | TOOMANYREQUESTS => std_code STooManyRequests
  | RANGE_INVALID => std_code SRangeInvalid
  | ECustom b => b
  | ENone => []
  end.

Definition std_ecode (t : std) : ecode :=
  match t with
  | SBlobUnknown => BLOB_UNKNOWN | SBlobUploadInvalid => BLOB_UPLOAD_INVALID
  | SBlobUploadUnknown => BLOB_UPLOAD_UNKNOWN | SDigestInvalid => DIGEST_INVALID
  | SManifestBlobUnknown => MANIFEST_BLOB_UNKNOWN | SManifestInvalid => MANIFEST_INVALID
  | SManifestUnknown => MANIFEST_UNKNOWN | SNameInvalid => NAME_INVALID | SNameUnknown => NAME_UNKNOWN
  | SSizeInvalid => SIZE_INVALID | SUnauthorized => UNAUTHORIZED | SDenied => DENIED
  | SUnsupported => UNSUPPORTED | STooManyRequests => TOOMANYREQUESTS | SRangeInvalid => RANGE_INVALID
  end.

Definition code_of_bytes (b : bytes) : ecode :=
  match b with
  | [] => ENone
  | _ => match find (fun t => beqb (std_code t) b) all_std with
         | Some t => std_ecode t
         | None => ECustom b
         end
  end.

Definition UNKNOWN : ecode := ECustom (s "UNKNOWN").

(* the code MarshalError puts on the wire: an error without a code travels as UNKNOWN *)
Definition wire_code (c : ecode) : ecode :=
  match code_bytes c with [] => UNKNOWN | b => code_of_bytes b end.

(* the HTTP status the server answers for a code: the errorStatuses table of error.go
   (Model/Errors.v), 500 for everything the table does not list *)
Definition status_class (c : ecode) : Z :=
  match Errors.lookup (code_bytes (wire_code c)) error_statuses with
  | Some st => st
  | None => 500%Z
  end.

(* what the client makes of a status when the response has no body (makeError1, HEAD branch) *)
Definition head_code (st : Z) : ecode :=
  match make_error1 {| rp_head := true; rp_status := st; rp_media := []; rp_len := 0;
                       rp_body := None; rp_txt := [] |} with
  | Some (Wire w) => code_of_bytes (w_code w)
  | _ => ENone
  end.

Definition head_hop (c : ecode) : ecode := head_code (status_class c).

Definition is_head (o : op) : bool :=
  match o with ResolveBlob _ _ | ResolveManifest _ _ | ResolveTag _ _ => true | _ => false end.

(* ------------------------------------------------------------------ content of a repository,
   read off the answers of the registry called directly *)

Definition ev_some_blob : option (bytes * bytes) := Some ([], []).

Definition wrepo (wr : list (N * bytes)) (w : N) : bytes :=
  match find (fun p => N.eqb (fst p) w) wr with Some p => snd p | None => [] end.

Definition is_okr (r : oresult) : bool := match r with OOk _ => true | _ => false end.

Definition log_step (st : list event * list (N * bytes)) (o : op) (d : oresult)
  : list event * list (N * bytes) :=
  let '(l, wr) := st in
  match o, d with
  | PushBlob r de _, OOk _ => (EvBlob r (d_digest de) ev_some_blob :: l, wr)
  | MountBlob _ t dg, OOk _ => (EvBlob t dg ev_some_blob :: l, wr)
  | PushManifest r t _ _, OOk (RDesc de) =>
      let l1 := EvMan r (d_digest de) ev_some_blob :: l in
      (match t with [] => l1 | _ => EvTag r t (Some de) :: l1 end, wr)
  | WCommit w dg, OOk _ => (EvBlob (wrepo wr w) dg ev_some_blob :: l, wr)
  | DeleteBlob r dg, OOk _ => (EvBlob r dg None :: l, wr)
  | DeleteManifest r dg, OOk _ => (EvMan r dg None :: l, wr)
  | DeleteTag r t, OOk _ => (EvTag r t None :: l, wr)
  | PushBlobChunked r _, OOk (RWriter w) => (l, (w, r) :: wr)
  | PushBlobChunkedResume r _ _ _, OOk (RWriter w) => (l, (w, r) :: wr)
  | _, _ => (l, wr)
  end.

(* ------------------------------------------------------------------ rel *)

Definition to_result (o : oresult) : result :=
  match o with
  | OOk r => Ok r
  | OList l e => Ok (RList l (option_map (fun c => E c []) e))
  | ODescs l e => Ok (RDescs l (option_map (fun c => E c []) e))
  | OErr c => Err (E c [])
  | OPanic => Panic
  end.

Definition code_rel (head : bool) (cd cv : ecode) : bool :=
  if head then (status_class cd =? status_class cv)%Z
  else match cd with ENone => true | _ => ecode_eqb cd cv end.

Definition opt_code_rel (cd cv : option ecode) : bool :=
  match cd, cv with
  | None, None => true
  | Some a, Some b => code_rel false a b
  | _, _ => false
  end.

(* WChunkSize is not an observable of the property: the chunk size is the writer's own choice *)
Definition res_rel (o : op) (a b : res) : bool :=
  match o, a, b with
  | WChunkSize _, RN _, RN _ => true
  | _, _, _ => res_eqb a b
  end.

Definition rel_plain (head : bool) (o : op) (d v : oresult) : bool :=
  match d, v with
  | OOk a, OOk b => res_rel o a b
  | OList la ea, OList lb eb => list_eqb beqb la lb && opt_code_rel ea eb
  | ODescs la ea, ODescs lb eb => list_eqb desc_eqb la lb && opt_code_rel ea eb
  | OErr cd, OErr cv => code_rel head cd cv
  | _, _ => false
  end.

Definition slack (l : list event) (o : op) (d v : oresult) : bool :=
  match op_repo o with
  | Some r => negb (has_content l r) && empty_answer o (to_result d) && empty_answer o (to_result v)
  | None => false
  end.

Definition refused_answer : oresult := OList [] (Some UNSUPPORTED).

Definition oresult_eqb (a b : oresult) : bool :=
  match a, b with
  | OOk x, OOk y => res_eqb x y
  | OList la ea, OList lb eb => list_eqb beqb la lb && option_eqb ecode_eqb ea eb
  | ODescs la ea, ODescs lb eb => list_eqb desc_eqb la lb && option_eqb ecode_eqb ea eb
  | OErr x, OErr y => ecode_eqb x y
  | OPanic, OPanic => true
  | _, _ => false
  end.

Definition rel_gen (head_ident : bool) (refused : bool) (l : list event) (o : op) (d v : oresult) : bool :=
  if refused && is_listing o then oresult_eqb v refused_answer
  else
    match o, d, v with
    | Repositories _, OList ld None, OList lv None =>
        list_eqb beqb (filter (has_content l) ld) (filter (has_content l) lv)
    | _, _, _ => rel_plain (head_ident && is_head o) o d v || slack l o d v
    end.

Definition rel (cfg : scfg) (l : list event) (o : op) (d v : oresult) : bool :=
  rel_gen true (refuses_lists cfg) l o d v.

(* two registries called directly (the snapshots after the history): no HEAD involved *)
Definition rel_direct (l : list event) (o : op) (a b : oresult) : bool := rel_gen false false l o a b.

(* did the comparison need identification (b)? (counted in the evidence) *)
Definition used_slack (cfg : scfg) (l : list event) (o : op) (d v : oresult) : bool :=
  rel cfg l o d v
  && negb (refuses_lists cfg && is_listing o)
  && match o with
     | Repositories _ => negb (oresult_eqb d v)
     | _ => negb (rel_plain (is_head o) o d v)
     end.

(* ------------------------------------------------------------------ known deviations *)

(* a range the client cannot put into a Range header: negative start, or an end at or
   before the start (HTTP has no empty range); ociserver answers 416 without asking the backend *)
Definition range_unsendable (o0 o1 : Z) : bool :=
  (o0 <? 0)%Z || ((0 <=? o1)%Z && (o1 <=? o0)%Z).

Definition set_media (m : bytes) (de : desc) : desc :=
  {| d_media := m; d_digest := d_digest de; d_size := d_size de; d_artifact := d_artifact de |}.

Inductive finding := FMountSize | FBlobMedia | FRange | FPushSize | FReferrersArt | FCancel | FCommitRetry | FTagHead | FResumeOneByte.

Definition finding_eqb (a b : finding) : bool :=
  match a, b with
  | FMountSize, FMountSize | FBlobMedia, FBlobMedia | FRange, FRange | FPushSize, FPushSize
  | FReferrersArt, FReferrersArt | FCancel, FCancel | FCommitRetry, FCommitRetry | FTagHead, FTagHead | FResumeOneByte, FResumeOneByte => true
  | _, _ => false
  end.

(* the shape of each recorded deviation on the RESULT of one operation; everything not
   mentioned must be equal *)
Definition known_shape (o : op) (d v : oresult) : option finding :=
  match o, d, v with
  | MountBlob _ _ dg, OOk (RDesc dd), OOk (RDesc dv) =>
      (* the mount response carries no size (and no media type): size 0, octet-stream;
         the digest must be right *)
      if beqb (d_digest dd) dg && beqb (d_digest dv) dg && (d_size dv =? 0)%Z
         && beqb (d_media dv) MT_OCTET && beqb (d_artifact dv) (d_artifact dd)
         && negb (desc_eqb dd dv)
      then Some FMountSize else None
  | (GetBlob _ _ | GetBlobRange _ _ _ _), OOk (RRead dd xd), OOk (RRead dv xv) =>
      if beqb xd xv && desc_eqb dv (set_media MT_OCTET dd) && negb (beqb (d_media dd) MT_OCTET)
      then Some FBlobMedia else None
  | ResolveBlob _ _, OOk (RDesc dd), OOk (RDesc dv) =>
      if desc_eqb dv (set_media MT_OCTET dd) && negb (beqb (d_media dd) MT_OCTET)
      then Some FBlobMedia else None
  | _, _, _ => None
  end.

(* deviations recognised from the operation itself (the backend is never asked) *)
Definition known_input (o : op) (d v : oresult) : option finding :=
  match o, v with
  | GetBlobRange _ _ o0 o1, OErr c =>
      if range_unsendable o0 o1 && ecode_eqb c UNKNOWN then Some FRange else None
  | PushBlob _ de content, OErr c =>
      (* ociclient refuses content whose (known) length is not the size in the descriptor
         with SIZE_INVALID before it sends anything; the direct call answers SIZE_INVALID too,
         but DIGEST_INVALID when the digest is wrong as well (it checks the digest first) *)
      match d with
      | OErr _ =>
          if negb (d_size de =? blen content)%Z && (0 <? d_size de)%Z && (0 <? blen content)%Z
             && ecode_eqb c SIZE_INVALID
          then Some FPushSize else None
      | _ => None
      end
  | _, _ => None
  end.

Definition known_result (o : op) (d v : oresult) : option finding :=
  match known_shape o d v with
  | Some f => Some f
  | None => known_input o d v
  end.

(* ------------------------------------------------------------------ view: the interim
   prediction of the stack's answer from the direct answer *)

Fixpoint iter_n {A} (n : nat) (f : A -> A) (a : A) : A :=
  match n with O => a | S k => iter_n k f (f a) end.

Definition hops_nat (cfg : scfg) : nat := if two_hops cfg then 2 else 1.

(* requests the client refuses to send (no wire involved, the error carries no code) *)
Definition client_refuses (o : op) : bool :=
  match o with
  | PushManifest _ _ _ [] => true
  | _ => false
  end.

Definition view_code (cfg : scfg) (o : op) (c : ecode) : ecode :=
  if is_head o then iter_n (hops_nat cfg) head_hop c
  else if client_refuses o then c
  else wire_code c.

Definition push_size_mismatch (o : op) : bool :=
  match o with
  | PushBlob _ de content => negb (d_size de =? blen content)%Z && (0 <? d_size de)%Z && (0 <? blen content)%Z
  | _ => false
  end.

Definition view (cfg : scfg) (o : op) (r : oresult) : oresult :=
  if refuses_lists cfg && is_listing o then refused_answer
  else
    match o, r with
    | GetBlobRange _ _ o0 o1, _ =>
        if range_unsendable o0 o1 then OErr UNKNOWN
        else match r with
             | OOk (RRead de x) => OOk (RRead (set_media MT_OCTET de) x)
             | OErr c => OErr (view_code cfg o c)
             | _ => r
             end
    | GetBlob _ _, OOk (RRead de x) => OOk (RRead (set_media MT_OCTET de) x)
    | ResolveBlob _ _, OOk (RDesc de) => OOk (RDesc (set_media MT_OCTET de))
    | MountBlob _ _ dg, OOk (RDesc de) =>
        OOk (RDesc {| d_media := MT_OCTET; d_digest := dg; d_size := 0; d_artifact := d_artifact de |})
    | PushBlob _ _ _, OErr c => if push_size_mismatch o then OErr SIZE_INVALID else OErr (view_code cfg o c)
    | _, OErr c => OErr (view_code cfg o c)
    | _, OList l (Some c) => OList l (Some (wire_code c))
    | _, ODescs l (Some c) => ODescs l (Some (wire_code c))
    | _, _ => r
    end.

(* answers the stack may give instead of [view] (a race the real code leaves open): none
   since ociclient.PushBlob holds content of known length to the descriptor's size itself *)
Definition view_alts (o : op) (d : oresult) : list oresult := [].

(* results a registry can give to an operation, as far as [view_rel] needs to know *)
Definition head_status_kept (c : ecode) : bool :=
  let st := status_class c in
  (st =? 404)%Z || (st =? 401)%Z || (st =? 403)%Z || (st =? 429)%Z || (st =? 400)%Z || (st =? 500)%Z.

(* the code survives the wire: true of the 15 standard codes and of every custom code that is
   not empty and not the text of a standard one *)
Definition code_ok (c : ecode) : bool :=
  match c with ENone => true | _ => ecode_eqb c (wire_code c) end.

(* iterators are drained into OList / ODescs by the harness: RList / RDescs never occur in OOk *)
Definition res_plain (a : res) : bool := match a with RList _ _ | RDescs _ _ => false | _ => true end.
Definition well_shaped (r : oresult) : bool :=
  match r with OPanic => false | OOk a => res_plain a | _ => true end.

(* the kind of answer each operation gives *)
Definition shape_ok (o : op) (r : oresult) : bool :=
  match r with
  | OErr _ => negb (match o with Repositories _ | Tags _ _ | Referrers _ _ _ => true | _ => false end)
  | OPanic => false
  | OList _ _ => is_listing o
  | ODescs _ _ => match o with Referrers _ _ _ => true | _ => false end
  | OOk x =>
      match o, x with
      | (GetBlob _ _ | GetBlobRange _ _ _ _ | GetManifest _ _ | GetTag _ _), RRead _ _ => true
      | (ResolveBlob _ _ | ResolveManifest _ _ | ResolveTag _ _ | PushBlob _ _ _ | PushManifest _ _ _ _
         | WCommit _ _), RDesc _ => true
      | MountBlob _ _ dg, RDesc de => beqb (d_digest de) dg
      | (DeleteBlob _ _ | DeleteManifest _ _ | DeleteTag _ _ | WClose _ | WCancel _), RUnit => true
      | (PushBlobChunked _ _ | PushBlobChunkedResume _ _ _ _), RWriter _ => true
      | (WWrite _ _ | WSize _ | WChunkSize _), RN _ => true
      | WID _, RStr _ => true
      | _, _ => false
      end
  end.

Definition conforming (o : op) (r : oresult) : bool :=
  shape_ok o r
  && match r with
     | OErr c =>
         code_ok c
         && (if is_head o then head_status_kept c else true)
         && (if client_refuses o then ecode_eqb c ENone else true)
     | OList _ (Some c) | ODescs _ (Some c) => code_ok c
     | _ => true
     end.

(* equality of an answer with the predicted one (the chunk size a writer reports is its own) *)
Definition via_eqb (o : op) (v p : oresult) : bool :=
  match o, v, p with
  | WChunkSize _, OOk (RN _), OOk (RN _) => true
  | _, _, _ => oresult_eqb v p
  end.

(* the backend's final state seen directly: only the media type of blobs is not what was pushed *)
Definition snap_view (o : op) (a : oresult) : oresult :=
  match o, a with
  | GetBlob _ _, OOk (RRead de x) => OOk (RRead (set_media MT_OCTET de) x)
  | _, _ => a
  end.

(* ------------------------------------------------------------------ what the backend is asked *)

Inductive bcall :=
  | BOp (o : op)                          (* one of the 18 methods, with its arguments *)
  | BWrite (id data : bytes)              (* BlobWriter calls, by canonical upload id *)
  | BClose (id : bytes)
  | BCommit (id d : bytes)
  | BCancel (id : bytes).

Definition op_eqb_nohint (a b : op) : bool :=
  match a, b with
  | GetBlob r d, GetBlob r' d' | GetManifest r d, GetManifest r' d'
  | ResolveBlob r d, ResolveBlob r' d' | ResolveManifest r d, ResolveManifest r' d'
  | DeleteBlob r d, DeleteBlob r' d' | DeleteManifest r d, DeleteManifest r' d'
  | GetTag r d, GetTag r' d' | ResolveTag r d, ResolveTag r' d' | DeleteTag r d, DeleteTag r' d'
  | Tags r d, Tags r' d' => beqb r r' && beqb d d'
  | GetBlobRange r d a0 a1, GetBlobRange r' d' b0 b1 => beqb r r' && beqb d d' && (a0 =? b0)%Z && (a1 =? b1)%Z
  | PushBlob r de c, PushBlob r' de' c' => beqb r r' && desc_eqb de de' && beqb c c'
  | PushBlobChunked r _, PushBlobChunked r' _ => beqb r r'       (* the chunk size hint is advisory *)
  | PushBlobChunkedResume r i off _, PushBlobChunkedResume r' i' off' _ => beqb r r' && beqb i i' && (off =? off')%Z
  | MountBlob f t d, MountBlob f' t' d' => beqb f f' && beqb t t' && beqb d d'
  | PushManifest r t c m, PushManifest r' t' c' m' => beqb r r' && beqb t t' && beqb c c' && beqb m m'
  | Repositories x, Repositories x' => beqb x x'
  | Referrers r d a, Referrers r' d' a' => beqb r r' && beqb d d' && beqb a a'
  | _, _ => false
  end.

Definition bcall_eqb (a b : bcall) : bool :=
  match a, b with
  | BOp x, BOp y => op_eqb_nohint x y
  | BWrite i x, BWrite j y => beqb i j && beqb x y
  | BClose i, BClose j => beqb i j
  | BCommit i x, BCommit j y => beqb i j && beqb x y
  | BCancel i, BCancel j => beqb i j
  | _, _ => false
  end.

(* consecutive Writes to one upload are one write of the concatenation (io.Copy cuts the
   body where the network did); an empty Write is no write *)
Fixpoint norm_trace (t : list bcall) : list bcall :=
  match t with
  | [] => []
  | BWrite i x :: t' =>
      match norm_trace t' with
      | BWrite j y :: t'' => if beqb i j then BWrite i (x ++ y) :: t'' else
                               match x with [] => BWrite j y :: t'' | _ => BWrite i x :: BWrite j y :: t'' end
      | nt => match x with [] => nt | _ => BWrite i x :: nt end
      end
  | c :: t' => c :: norm_trace t'
  end.

Definition bwrite (id data : bytes) : list bcall := match data with [] => [] | _ => [BWrite id data] end.

(* one flush of the client's BlobWriter as the backend sees it (PATCH) *)
Definition flush_calls (r id : bytes) (flushed : Z) (data : bytes) : list bcall :=
  BOp (PushBlobChunkedResume r id flushed (blen data)) :: bwrite id data ++ [BClose id].

(* the closing PUT *)
Definition commit_calls (r id : bytes) (flushed : Z) (data dg : bytes) : list bcall :=
  BOp (PushBlobChunkedResume r id flushed (blen data)) :: bwrite id data ++ [BCommit id dg; BClose id].

(* an upload session as the trace check follows it: the backend's id, what the caller has
   written that the client still buffers, how much the backend has, and whether the
   session is still followed exactly (not after an error) *)
Record tsess := {
  ts_repo : bytes; ts_id : bytes; ts_pending : bytes; ts_flushed : Z; ts_exact : bool }.

Record tstate := { t_nb : N; t_sess : list (N * tsess) }.

Definition tinit : tstate := {| t_nb := 0; t_sess := [] |}.

Definition tfind (t : tstate) (w : N) : option tsess :=
  match find (fun p => N.eqb (fst p) w) (t_sess t) with Some p => Some (snd p) | None => None end.
Definition tset (t : tstate) (w : N) (s : tsess) : tstate :=
  {| t_nb := t_nb t; t_sess := (w, s) :: t_sess t |}.

Definition in_mem_threshold : Z := 131072.

(* how many hops answer a tag GET without the digest, so that the client above asks again
   with HEAD when the manifest is larger than it will hash in memory *)
Definition omit_count (cfg : scfg) : nat :=
  (if so_omit_digest (k_opts1 cfg) then 1 else 0)
  + (if two_hops cfg && so_omit_digest (k_opts2 cfg) then 1 else 0).

Fixpoint chunks_last (fuel : nat) (n : nat) (l : list bytes) : list bytes :=
  match fuel with
  | O => []
  | S f =>
      if (length l <? n)%nat then []
      else match n with
           | O => []
           | S _ => last (firstn n l) [] :: chunks_last f n (skipn n l)
           end
  end.

(* the start points of the page requests one client makes for a listing that turned out
   to be [l]: the caller's start, then the last item of every full page *)
Definition page_starts (page : Z) (start : bytes) (l : list bytes) : list bytes :=
  start :: chunks_last (S (length l)) (Z.to_nat (page_eff page)) l.

Definition via_list (v : oresult) : list bytes := match v with OList l _ => l | _ => [] end.
Definition via_size (v : oresult) : Z := match v with OOk (RRead de _) => d_size de | _ => 0%Z end.

(* THE TABLE: the calls the backend must receive for operation [o] that the stack
   answered with success [v].  [nb] = upload sessions the backend has created so far (its
   ids are #0, #1, ... in that order); [ss] = the session a writer operation addresses. *)
Definition expected_calls (cfg : scfg) (nb : N) (ss : option tsess) (o : op) (v : oresult) : list bcall :=
  match o with
  | GetBlob _ _ | GetManifest _ _ | ResolveBlob _ _ | ResolveManifest _ _ | ResolveTag _ _
  | DeleteBlob _ _ | DeleteManifest _ _ | DeleteTag _ _ | MountBlob _ _ _ | PushManifest _ _ _ _
  | Referrers _ _ _ => [BOp o]
  | GetBlobRange r d o0 o1 =>
      (* GetBlobRange(0, negative) is GetBlob; every negative end means "to the end" *)
      if (o0 =? 0)%Z && (o1 <? 0)%Z then [BOp (GetBlob r d)]
      else [BOp (GetBlobRange r d o0 (if (o1 <? 0)%Z then (-1)%Z else o1))]
  | GetTag r t =>
      BOp o :: (if (in_mem_threshold <? via_size v)%Z then repeat (BOp (ResolveTag r t)) (omit_count cfg) else [])
  | PushBlob r de content =>
      let id := fresh_id nb in
      [BOp (PushBlobChunked r 0); BClose id] ++ commit_calls r id 0 content (d_digest de)
  | PushBlobChunked r _ => [BOp (PushBlobChunked r 0); BClose (fresh_id nb)]
  | PushBlobChunkedResume r _ off _ =>
      match ss with
      | Some s => if (off =? -1)%Z then [BOp (PushBlobChunkedResume r (ts_id s) (-1) 0); BClose (ts_id s)] else []
      | None => []
      end
  | Repositories start => map (fun x => BOp (Repositories x)) (page_starts (k_page cfg) start (via_list v))
  | Tags r start => map (fun x => BOp (Tags r x)) (page_starts (k_page cfg) start (via_list v))
  | WCommit _ dg =>
      match ss with
      | Some s => commit_calls (ts_repo s) (ts_id s) (ts_flushed s) (ts_pending s) dg
      | None => []
      end
  | WClose _ =>
      match ss with
      | Some s => match ts_pending s with [] => [] | p => flush_calls (ts_repo s) (ts_id s) (ts_flushed s) p end
      | None => []
      end
  | WCancel _ => match ss with Some s => [BCancel (ts_id s)] | None => [] end
  | WWrite _ _ | WSize _ | WChunkSize _ | WID _ => []
  end.

(* Write: the client either keeps the data or flushes everything it holds *)
Definition write_flush (s : tsess) (data : bytes) : list bcall :=
  flush_calls (ts_repo s) (ts_id s) (ts_flushed s) (ts_pending s ++ data).

(* the arguments a call may carry, whatever the outcome: a call of the right kind with the
   caller's repository / digest / tag (data, offsets and upload ids left open) *)
Inductive ckind := KOp (o : op) | KWrite | KClose | KCommit (d : bytes) | KCancel.

Definition key_ok (k : ckind) (c : bcall) : bool :=
  match k, c with
  | KOp x, BOp y =>
      match x, y with
      | PushBlobChunkedResume r _ _ _, PushBlobChunkedResume r' _ _ _ => beqb r r'
      | GetBlobRange r d _ _, GetBlobRange r' d' _ _ => beqb r r' && beqb d d'
      | Repositories _, Repositories _ => true
      | Tags r _, Tags r' _ => beqb r r'
      | _, _ => op_eqb_nohint x y
      end
  | KWrite, BWrite _ _ => true
  | KClose, BClose _ => true
  | KCommit d, BCommit _ d' => beqb d d'
  | KCancel, BCancel _ => true
  | _, _ => false
  end.

Definition upload_keys (r : bytes) : list ckind :=
  [KOp (PushBlobChunkedResume r [] 0 0); KWrite; KClose].

Definition op_keys (wr : bytes) (o : op) : list ckind :=
  match o with
  | GetBlobRange r d _ _ => [KOp o; KOp (GetBlob r d)]
  | GetTag r t => [KOp o; KOp (ResolveTag r t)]
  | PushBlob r de _ => KOp (PushBlobChunked r 0) :: KCommit (d_digest de) :: upload_keys r
  | PushBlobChunked r _ => [KOp (PushBlobChunked r 0); KClose]
  | PushBlobChunkedResume r _ _ _ => upload_keys r
  | WWrite _ _ | WClose _ => upload_keys wr
  | WCommit _ d => KCommit d :: upload_keys wr
  | WCancel _ => [KCancel]
  | WSize _ | WChunkSize _ | WID _ => []
  | _ => [KOp o]
  end.

Definition keys_ok (ks : list ckind) (tr : list bcall) : bool :=
  forallb (fun c => existsb (fun k => key_ok k c) ks) tr.

Definition is_success (v : oresult) : bool :=
  match v with
  | OOk _ | OList _ None | ODescs _ None => true
  | _ => false
  end.

Definition trace_eqb (a b : list bcall) : bool := list_eqb bcall_eqb (norm_trace a) (norm_trace b).

(* the listing calls of two pagers on top of each other, collapsed: the first start point
   is the caller's, the others are items of the listing at non-decreasing positions *)
Fixpoint index_of (x : bytes) (l : list bytes) (i : nat) : option nat :=
  match l with
  | [] => None
  | y :: l' => if beqb x y then Some i else index_of x l' (S i)
  end.
Fixpoint advancing (l : list bytes) (from : nat) (starts : list bytes) : bool :=
  match starts with
  | [] => true
  | x :: rest => match index_of x l 0 with
                 | Some i => (from <=? i)%nat && advancing l i rest
                 | None => false
                 end
  end.
Definition starts_of (o : op) (tr : list bcall) : option (list bytes) :=
  fold_right (fun c acc =>
    match acc, o, c with
    | Some xs, Repositories _, BOp (Repositories x) => Some (x :: xs)
    | Some xs, Tags r _, BOp (Tags r' x) => if beqb r r' then Some (x :: xs) else None
    | _, _, _ => None
    end) (Some []) tr.
Definition listing_collapsed (o : op) (v : oresult) (tr : list bcall) : bool :=
  match starts_of o tr, o with
  | Some (x :: rest), (Repositories start | Tags _ start) => beqb x start && advancing (via_list v) 0 rest
  | _, _ => false
  end.

Definition sess_of (t : tstate) (o : op) (v : oresult) : option tsess :=
  match o with
  | WWrite w _ | WClose w | WSize w | WChunkSize w | WID w | WCommit w _ | WCancel w => tfind t w
  | PushBlobChunkedResume _ _ _ _ => match v with OOk (RWriter w) => tfind t w | _ => None end
  | _ => None
  end.

Definition count_new_sessions (tr : list bcall) : N :=
  N.of_nat (length (filter (fun c => match c with BOp (PushBlobChunked _ _) => true | _ => false end) tr)).

Definition upd_sess (s : tsess) (pending : bytes) (flushed : Z) (exact : bool) : tsess :=
  {| ts_repo := ts_repo s; ts_id := ts_id s; ts_pending := pending; ts_flushed := flushed; ts_exact := exact |}.

(* a listing the options refuse: ociserver obtains the backend's iterator before it looks at
   the page size, so the server that refuses has asked its backend once; when that backend is
   the second hop's client (whose iterator sends nothing until it is drained) the registry
   behind sees nothing *)
Definition refused_calls (cfg : scfg) (o : op) : list bcall :=
  if two_hops cfg && hop_refuses (k_opts1 cfg) (k_page cfg) then [] else [BOp o].

(* one step of the trace check: is the backend's trace of this operation right, and the
   sessions afterwards *)
Definition trace_step (cfg : scfg) (t : tstate) (o : op) (v : oresult) (tr : list bcall) : bool * tstate :=
  let ss := sess_of t o v in
  let wr := match ss with Some s => ts_repo s | None => [] end in
  let t1 := {| t_nb := (t_nb t + count_new_sessions tr)%N; t_sess := t_sess t |} in
  let exact := match ss with Some s => ts_exact s | None => true end in
  if refuses_lists cfg && is_listing o then (trace_eqb tr (refused_calls cfg o), t1)
  else if negb (is_success v) || negb exact then
    (* failed, or a session that failed before: right kind of calls, the caller's arguments *)
    (keys_ok (op_keys wr o) tr,
     match o, ss with
     | (WWrite w _ | WClose w | WCommit w _ | WCancel w), Some s => tset t1 w (upd_sess s [] (ts_flushed s) false)
     | _, _ => t1
     end)
  else
    match o, ss with
    | PushBlobChunked r _, _ =>
        (trace_eqb tr (expected_calls cfg (t_nb t) ss o v),
         match v with
         | OOk (RWriter w) => tset t1 w {| ts_repo := r; ts_id := fresh_id (t_nb t); ts_pending := [];
                                           ts_flushed := 0; ts_exact := true |}
         | _ => t1
         end)
    | PushBlobChunkedResume r _ off _, Some s =>
        (* a new client-side writer for the session: nothing buffered, at the offset given *)
        (beqb r (ts_repo s) && trace_eqb tr (expected_calls cfg (t_nb t) ss o v),
         match v with
         | OOk (RWriter w) => tset t1 w (upd_sess s [] (if (off =? -1)%Z then ts_flushed s else off) true)
         | _ => t1
         end)
    | PushBlobChunkedResume _ _ _ _, None => (keys_ok (op_keys wr o) tr, t1)
    | WWrite w data, Some s =>
        match tr with
        | [] => (true, tset t1 w (upd_sess s (ts_pending s ++ data) (ts_flushed s) true))
        | _ => (trace_eqb tr (write_flush s data),
                tset t1 w (upd_sess s [] (ts_flushed s + blen (ts_pending s ++ data)) true))
        end
    | WClose w, Some s =>
        (trace_eqb tr (expected_calls cfg (t_nb t) ss o v),
         tset t1 w (upd_sess s [] (ts_flushed s + blen (ts_pending s)) true))
    | WCommit w _, Some s =>
        (trace_eqb tr (expected_calls cfg (t_nb t) ss o v),
         tset t1 w (upd_sess s [] (ts_flushed s + blen (ts_pending s)) true))
    | (Repositories _ | Tags _ _), _ =>
        (if two_hops cfg then listing_collapsed o v tr
         else trace_eqb tr (expected_calls cfg (t_nb t) ss o v), t1)
    | _, _ => (trace_eqb tr (expected_calls cfg (t_nb t) ss o v), t1)
    end.

(* a Commit repeated on a writer whose earlier Commit (or flush) failed: the registry called
   directly repeats the error it remembered (DIGEST_INVALID); the client still holds the chunk
   whose PUT failed and sends it again at the old offset, which the backend - that did receive
   the data the first time - refuses with RANGE_INVALID *)
Definition known_retry (t : tstate) (o : op) (d v : oresult) : option finding :=
  match o, d, v with
  | WCommit _ _, OErr DIGEST_INVALID, OErr RANGE_INVALID =>
      match sess_of t o v with
      | Some s => if ts_exact s then None else Some FCommitRetry
      | None => None
      end
  | _, _, _ => None
  end.

(* a tag GET of a manifest larger than the client hashes in memory, through a server that
   omits the digest: the client takes the WHOLE descriptor of the HEAD response it sends for
   the digest, so media type and size are what the backend's ResolveTag says, which need not be
   what its GetTag says (ocimem: the same bytes stored again under another media type) *)
Definition known_taghead (cfg : scfg) (o : op) (d v : oresult) : option finding :=
  match o, d, v with
  | GetTag _ _, OOk (RRead dd xd), OOk (RRead dv xv) =>
      if beqb xd xv && beqb (d_digest dd) (d_digest dv) && (in_mem_threshold <? blen xd)%Z
         && (0 <? omit_count cfg)%nat && negb (desc_eqb dd dv)
      then Some FTagHead else None
  | _, _, _ => None
  end.

(* an upload resumed with offset -1 when the backend holds exactly ONE byte: the upload status
   response says "Range: 0-0", which the protocol also uses for the empty upload, and the
   client's writer reports Size 0 *)
Definition known_onebyte (t : tstate) (o : op) (d v : oresult) : option finding :=
  match o, d, v with
  | WSize _, OOk (RN 1), OOk (RN 0) =>
      match sess_of t o v with
      | Some s => match ts_pending s with
                  | [] => if (ts_flushed s =? 1)%Z then Some FResumeOneByte else None
                  | _ => None
                  end
      | None => None
      end
  | _, _, _ => None
  end.

(* the deviations that are recognised with the configuration or the upload sessions in hand *)
Definition known_extra (cfg : scfg) (t : tstate) (o : op) (d v : oresult) : option finding :=
  match known_retry t o d v with
  | Some f => Some f
  | None => match known_taghead cfg o d v with
            | Some f => Some f
            | None => known_onebyte t o d v
            end
  end.

(* recorded deviations of the trace of one operation *)
Definition known_trace (cfg : scfg) (t : tstate) (o : op) (v : oresult) (tr : list bcall) : option finding :=
  match o with
  | GetBlobRange _ _ o0 o1 =>
      match tr with [] => if range_unsendable o0 o1 then Some FRange else None | _ => None end
  | Referrers r d art =>
      match art with
      | [] => None
      | _ => if trace_eqb tr [BOp (Referrers r d [])] then Some FReferrersArt else None
      end
  | WCancel _ => match tr with [] => Some FCancel | _ => None end
  | _ => None
  end.

(* ------------------------------------------------------------------ the names a call carries *)

(* repository, digest and tag arguments of an operation (not: start points of listings,
   upload ids, offsets, contents) *)
Definition op_args (o : op) : list bytes :=
  match o with
  | GetBlob r d | GetBlobRange r d _ _ | GetManifest r d | ResolveBlob r d | ResolveManifest r d
  | DeleteBlob r d | DeleteManifest r d => [r; d]
  | GetTag r t | ResolveTag r t | DeleteTag r t => [r; t]
  | PushBlob r de _ => [r; d_digest de]
  | PushBlobChunked r _ | PushBlobChunkedResume r _ _ _ | Tags r _ => [r]
  | MountBlob f t d => [f; t; d]
  | PushManifest r t _ _ => [r; t]
  | Referrers r d a => [r; d; a]
  | Repositories _ => []
  | WCommit _ d => [d]
  | WWrite _ _ | WClose _ | WSize _ | WChunkSize _ | WID _ | WCancel _ => []
  end.

Definition bcall_args (c : bcall) : list bytes :=
  match c with
  | BOp o => op_args o
  | BCommit _ d => [d]
  | BWrite _ _ | BClose _ | BCancel _ => []
  end.

Definition sess_repo (ss : option tsess) : bytes := match ss with Some s => ts_repo s | None => [] end.
