(* C16: the property, written over what an observer sees at a moment when every goroutine is
   blocked or gone (a snapshot, Model/UnifyConc.v) - with no reference to the transition
   system.  The same definitions judge the model's states (Proofs/UnifyConc.v) and the
   implementation's observations (Obs/C16.v). *)
From OCI Require Export Model.UnifyConc.

Definition om (i : mem) (x : snapshot) : msnap := match i with M0 => o_m0 x | M1 => o_m1 x end.

Definition ret_succ (m : msnap) : bool := match ms_ret m with Ret Succ => true | _ => false end.
Definition ret_fail (m : msnap) : bool := match ms_ret m with Ret Fail => true | _ => false end.
Definition returned (m : msnap) : bool := match ms_ret m with NotRet => false | Ret _ => true end.

Definition chosen (i : mem) (x : snapshot) : bool :=
  match o_res x with Some (ROk j) => mem_beq i j | _ => false end.

(* 1. The call returns the first successful answer, or an error only when both fail or the
      caller cancelled.  At a quiet moment: a call that has not returned is one that nothing
      entitles to an answer yet (no member has answered successfully, not both have answered,
      the caller has not cancelled); a returned answer is a successful answer of that member;
      a returned error has both members failed or the caller cancelled. *)
Definition result_ok (x : snapshot) : bool :=
  match o_res x with
  | None => false
  | Some RNone =>
      negb (ret_succ (o_m0 x)) && negb (ret_succ (o_m1 x))
      && (negb (o_started x)
          || (negb (returned (o_m0 x) && returned (o_m1 x)) && negb (o_cancelled x)))
  | Some (ROk j) => ret_succ (om j x)
  | Some (RErrM _) | Some RErrCtx => (ret_fail (o_m0 x) && ret_fail (o_m1 x)) || o_cancelled x
  end.

(* ... and it is the first one: an answer that appears between two quiet moments is not the
   answer of a member whose partner had already answered successfully at the earlier one. *)
Definition first_ok (prev cur : snapshot) : bool :=
  match o_res prev, o_res cur with
  | Some RNone, Some (ROk j) => negb (ret_succ (om (other j) prev))
  | _, _ => true
  end.

(* 2. Every reader opened on the member that was not chosen is closed (at a quiet moment an
      open reader is the chosen member's, not yet closed by the caller); the chosen member's
      reader is closed by the caller's Close. *)
Definition reader_ok (i : mem) (x : snapshot) : bool :=
  match ms_rd (om i x) with
  | RdNone => true
  | RdOpen => chosen i x && negb (o_closed x)
  | RdClosed | RdTwice => negb (chosen i x) || o_closed x
  end.

(* 3. The context given to the chosen member stays live until the returned reader is closed
      and is cancelled afterwards (the caller's own cancellation aside); for the resolve-style
      entry points it is cancelled when the call returns. *)
Definition ctx_ok (y : style) (x : snapshot) : bool :=
  match o_res x with
  | Some (ROk j) =>
      implb (ms_rdead (om j x)) (o_cancelled x)
      && match y with
         | Blob => Bool.eqb (ms_dead (om j x)) (o_closed x || o_cancelled x)
         | Resolve => ms_dead (om j x)
         end
  | _ => true
  end.

(* 3b. The context of a member that has answered and was not chosen is cancelled - the first
      answer when it is a failure, the second answer when both fail, the loser's, whichever
      wrapper the call came through.  (A derived context that nobody cancels is what keeps a
      goroutine parked for as long as the caller's context lives when that context is not one
      of package context's own: clause 4 in that setting; the harness reads the context's state
      from the goroutine profile there.)  The caller's own cancellation ends every context. *)
Definition unchosen_ctx_ok (i : mem) (x : snapshot) : bool :=
  implb (returned (om i x) && negb (chosen i x)) (ms_dead (om i x)).

(* 3c. The context given to a member lives exactly as long as the protocol says: it ends by the
      unifier's cancel or with the caller's context - it carries no deadline of its own.  (A
      per-member timeout would end the chosen member's context while the returned reader is
      still open, and would make a slow member fail although neither it nor the caller gave
      up; the deadline is visible on the context at once, no need to wait for it.) *)
Definition timer_ok (i : mem) (x : snapshot) : bool := negb (ms_timer (om i x)).

(* 3d. "Stays live until the returned reader is closed and is cancelled afterwards": the chosen
      member's context is still live when its reader's Close STARTS (the unifier closes the
      member's reader first and cancels second), and at the start of every other method of that
      reader called before (Read, Descriptor, ...) - the caller's own cancellation aside.  What a
      member reader that releases or drains its stream under the context of the call that opened
      it gets to see; sampled inside the member reader's methods. *)
Definition early_ok (i : mem) (x : snapshot) : bool :=
  implb (chosen i x) (negb (ms_early (om i x))).

(* 4. No goroutine remains blocked once both members have returned.  (Stronger, at every quiet
      moment: the goroutines alive are those inside a member call, plus the caller's while the
      call is still waiting for an answer.) *)
Definition goroutines_ok (x : snapshot) : bool :=
  o_quiet x
  && N.eqb (o_live x)
           (o_inmem x + match o_res x with Some RNone => b2n (o_started x) | _ => 0 end)
  && implb (returned (o_m0 x) && returned (o_m1 x)) (N.eqb (o_live x) 0).

Definition snap_ok (y : style) (x : snapshot) : bool :=
  result_ok x && reader_ok M0 x && reader_ok M1 x && ctx_ok y x
  && unchosen_ctx_ok M0 x && unchosen_ctx_ok M1 x && timer_ok M0 x && timer_ok M1 x
  && early_ok M0 x && early_ok M1 x
  && goroutines_ok x.

Fixpoint firsts_ok (prev : option snapshot) (l : list snapshot) : bool :=
  match l with
  | [] => true
  | x :: r => match prev with None => true | Some p => first_ok p x end && firsts_ok (Some x) r
  end.

(* a whole observation: the snapshots taken at the quiet moments of one call, in order *)
Definition seq_ok (y : style) (l : list snapshot) : bool :=
  forallb (snap_ok y) l && firsts_ok None l.
