(* Wrappers of ocifilter/select.go applied to each other (property C12).

   AccessChecker(r, check) and Select(r, allow) take ANY ociregistry.Interface as r, so r may
   itself be the result of AccessChecker or Select, or a value of any other type that has the
   eighteen methods.  Each constructor call makes one new accessCheckerRegistry whose field r is
   the registry it was given: nothing is looked up in it, unwrapped or merged.  A stack of
   wrappers is therefore the one-wrapper model (Model/Filter.v, [ac_step]) applied to itself:
   the wrapper underneath is the "wrapped registry" of the wrapper above.

   To use [ac_step] unchanged for every level, a wrapper underneath (a [tstep B op]: a step that
   also reports the calls it made on the innermost registry) is presented to the wrapper above
   as a plain [registry] whose state carries, next to the innermost registry's state, the calls
   made on the innermost registry so far ([as_registry]).  What the model of a stack reports as
   its trace is that accumulated list: the calls that reached the INNERMOST registry, which is
   where the harness records. *)
From Coq Require Import String.
From OCI Require Export Model.Filter.

(* one level of a stack: the fields check and listAll of one accessCheckerRegistry *)
Record layer := L { l_check : checker; l_listAll : bool }.

(* AccessChecker(_, check) / Select(_, allow) as levels *)
Definition checker_layer (check : checker) : layer := L check false.
Definition select_layer (allow : bytes -> bool) : layer := L (select_check allow) true.

(* the innermost registry, reporting each call made on it *)
Definition bottom {B} (bstep : registry B) : tstep B op :=
  fun st o => let '(st', r) := bstep st o in (st', r, [o]).

(* a wrapper as the field r of the wrapper above it *)
Definition as_registry {B} (inner : tstep B op) : registry (B * list op) :=
  fun s o => let '(st', r, t) := inner (fst s) o in ((st', snd s ++ t), r).

(* &accessCheckerRegistry{check: l_check, r: inner, listAll: l_listAll}: the methods are the
   ones of the one-wrapper model (with the embedded nil *Funcs behind them); the trace kept is
   the innermost registry's, not the list of calls made on [inner] *)
Definition over {B} (l : layer) (inner : tstep B op) : tstep B op :=
  fun st o =>
    let '(s', r, _) :=
      with_embedded_funcs declared_all (ac_step (l_check l) (l_listAll l) (as_registry inner)) (st, []) o in
    (fst s', r, snd s').

(* a stack, outermost level first *)
Fixpoint stack_step {B} (ls : list layer) (bstep : registry B) : tstep B op :=
  match ls with
  | [] => bottom bstep
  | l :: ls' => over l (stack_step ls' bstep)
  end.

(* ------------------------------------------------------------------------------------ *)
(* Repositories of a stack, yield by yield.                                             *)
(* ------------------------------------------------------------------------------------ *)

(* Go's push iterators as they are: a Seq is a function of the yield callback; the callback
   answers whether it wants more.  [S] is whatever the caller's callback closes over (what it
   has received so far), threaded explicitly. *)
Definition yfun (S : Type) := yld -> S -> S * bool.
Definition seqf (S : Type) := yfun S -> S -> S.

(* ociregistry.ErrorSeq[string](err):  func(yield) { yield("", err) } *)
Definition error_seqf {S} (e : err) : seqf S :=
  fun yield s => fst (yield ([], Some e) s).

(*  func(yield func(string, error) bool) {
        r.r.Repositories(ctx, startAfter)(func(repo string, err error) bool {
            if err != nil { yield("", err); return false }
            if r.check(repo, AccessRead) != nil { return true }
            return yield(repo, nil)
        })
    }                                                                                   *)
Definition repos_literal {S} (check : checker) (inner : seqf S) : seqf S :=
  fun yield s =>
    inner (fun y s =>
             match snd y with
             | Some err => (fst (yield ([], Some err) s), false)
             | None =>
                 match check (fst y) AccessRead with
                 | Some _ => (s, true)
                 | None => yield (fst y, None) s
                 end
             end) s.

(*  func (r *accessCheckerRegistry) Repositories(ctx, startAfter) Seq[string] {
        if !r.listAll { if err := r.check("*", AccessList); err != nil { return ErrorSeq(err) } }
        return func(yield) { ... }
    }                                                                                   *)
Definition ac_repositories {S} (l : layer) (inner : seqf S) : seqf S :=
  match (if l_listAll l then None else l_check l star AccessList) with
  | Some err => error_seqf err
  | None => repos_literal (l_check l) inner
  end.

(* the innermost registry's iterator: hands evs to the callback for as long as it answers
   true; [bump] is the registry's own bookkeeping of a yield made (the harness counts them) *)
Fixpoint raw_seqf {S} (bump : S -> S) (evs : list yld) : seqf S :=
  fun yield s =>
    match evs with
    | [] => s
    | y :: evs' =>
        let '(s', more) := yield y (bump s) in
        if more then raw_seqf bump evs' yield s' else s'
    end.

Definition stack_seqf {S} (ls : list layer) (bottom_seq : seqf S) : seqf S :=
  fold_right ac_repositories bottom_seq ls.

(* the caller of the outermost Repositories: remembers what it received and answers its i-th
   yield (from 0) with [more i]; the second component counts the innermost yields made *)
Definition cstate := (list yld * nat)%type.
Definition consumer (more : nat -> bool) : yfun cstate :=
  fun y s => ((fst s ++ [y], snd s), more (length (fst s))).
Definition count_yield (s : cstate) : cstate := (fst s, S (snd s)).

(* what the caller received, and how many of the innermost registry's events were delivered *)
Definition stack_drive (ls : list layer) (more : nat -> bool) (evs : list yld) : list yld * nat :=
  stack_seqf ls (raw_seqf count_yield evs) (consumer more) ([], 0%nat).
