(* Model of ociregistry/ociauth/authfile.go: credential lookup from a Docker-style
   config file (decodeConfigFile, urlHost, decodeAuth, ConfigFile.EntryForRegistry).

   What is data here and what is an oracle:
   - json.Unmarshal is NOT modelled: the model starts from the decoded [configData]
     (Go maps as association lists with unique keys; [derivedFrom] empty, it is unexported).
   - The [range f.Auths] loop of decodeConfigFile runs over a Go map that the loop body
     extends.  Go leaves the order unspecified and says that an entry created during the
     iteration may be produced or skipped.  The sequence of keys the range statement
     produces is therefore an ARGUMENT of the model ([sched]); [valid_sched] says what Go
     guarantees about it (every key present before the loop exactly once; anything else -
     in particular keys created by the loop - anywhere, or not at all).
   - The helper runner (an external program in production) is a function argument
     returning an entry and an error class.
   - base64.StdEncoding.DecodeString is [b64_decode] of Base/Base64.v. *)
From Coq Require Import String.
From OCI Require Export Base.Outcome Base.Base64.
From Coq Require Import Permutation.

(* ---------- Go maps with string keys ---------- *)

(* v, ok := m[k] *)
Fixpoint map_get {V} (k : bytes) (m : list (bytes * V)) : option V :=
  match m with
  | [] => None
  | (k', v) :: m' => if beqb k k' then Some v else map_get k m'
  end.

(* m[k] = v *)
Fixpoint map_set {V} (k : bytes) (v : V) (m : list (bytes * V)) : list (bytes * V) :=
  match m with
  | [] => [(k, v)]
  | (k', v') :: m' => if beqb k k' then (k', v) :: m' else (k', v') :: map_set k v m'
  end.

Definition keys {V} (m : list (bytes * V)) : list bytes := map fst m.

Definition nonempty (a : bytes) : bool := match a with [] => false | _ => true end.

(* ---------- types ---------- *)

(* authConfig *)
Record auth_config := {
  ac_derived : list bytes;      (* derivedFrom *)
  ac_user : bytes; ac_pass : bytes; ac_auth : bytes; ac_idtok : bytes; ac_regtok : bytes
}.

Definition zero_auth : auth_config :=
  {| ac_derived := []; ac_user := []; ac_pass := []; ac_auth := []; ac_idtok := []; ac_regtok := [] |}.

Definition amap := list (bytes * auth_config).

(* configData *)
Record config_data := {
  cd_auths : amap;
  cd_store : bytes;                       (* credsStore *)
  cd_helpers : list (bytes * bytes)       (* credHelpers *)
}.

(* ConfigEntry *)
Record config_entry := { ce_refresh : bytes; ce_access : bytes; ce_user : bytes; ce_pass : bytes }.
Definition zero_entry : config_entry := {| ce_refresh := []; ce_access := []; ce_user := []; ce_pass := [] |}.

(* ---------- strings ---------- *)

(* strings.Contains(a, sub) *)
Fixpoint contains (sub a : bytes) : bool :=
  has_prefix sub a || match a with [] => false | _ :: a' => contains sub a' end.

Definition slashslash : bytes := [47; 47].

(* strings.Trim(p, "\x00") = trimLeftByte(trimRightByte(p, 0), 0) *)
Fixpoint trim_left_byte (c : N) (a : bytes) : bytes :=
  match a with
  | d :: a' => if d =? c then trim_left_byte c a' else a
  | [] => []
  end.
Definition trim_right_byte (c : N) (a : bytes) : bytes := rev (trim_left_byte c (rev a)).
Definition trim_byte (c : N) (a : bytes) : bytes := trim_left_byte c (trim_right_byte c a).

(* slices.Sort on strings: insertion sort, same result as any sort for a total order *)
Fixpoint insert_sorted (a : bytes) (l : list bytes) : list bytes :=
  match l with
  | [] => [a]
  | b :: l' => if bleb a b then a :: l else b :: insert_sorted a l'
  end.
Fixpoint sort_bytes (l : list bytes) : list bytes :=
  match l with
  | [] => []
  | a :: l' => insert_sorted a (sort_bytes l')
  end.

(* ---------- urlHost ---------- *)

Definition url_host (url : bytes) : bytes :=
  let stripped :=
    if has_prefix (s "http://") url then trim_prefix (s "http://") url
    else if has_prefix (s "https://") url then trim_prefix (s "https://") url
    else url in
  (* hostName, _, _ := strings.Cut(stripped, "/") *)
  match cut_byte 47 stripped with
  | Some (host, _) => host
  | None => stripped
  end.

(* ---------- decodeAuth ---------- *)

Inductive auth_err := AEBase64 | AENoUser.

Definition decode_auth (a : bytes) : R auth_err (bytes * bytes) :=
  match b64_decode a with
  | None => Err AEBase64                              (* invalid base64-encoded string *)
  | Some sdec =>
      match cut_byte 58 sdec with                      (* strings.Cut(s, ":") *)
      | None => Err AENoUser
      | Some (username, password) =>
          if negb (nonempty username) then Err AENoUser
          else Ok (username, trim_byte 0 password)
      end
  end.

(* ---------- decodeConfigFile ---------- *)

Inductive decode_err := DEAuth (addr : bytes) (e : auth_err).

Definition set_userpass (ac : auth_config) (u p : bytes) : auth_config :=
  {| ac_derived := ac_derived ac; ac_user := u; ac_pass := p; ac_auth := ac_auth ac;
     ac_idtok := ac_idtok ac; ac_regtok := ac_regtok ac |}.

Definition with_derived (ac : auth_config) (d : list bytes) : auth_config :=
  {| ac_derived := d; ac_user := ac_user ac; ac_pass := ac_pass ac; ac_auth := ac_auth ac;
     ac_idtok := ac_idtok ac; ac_regtok := ac_regtok ac |}.

(* if ac.Auth != "" { ac.Username, ac.Password, err = decodeAuth(ac.Auth); if err != nil { return } } *)
Definition decode_entry (addr : bytes) (ac : auth_config) : R decode_err auth_config :=
  if nonempty (ac_auth ac) then
    match decode_auth (ac_auth ac) with
    | Ok (u, p) => Ok (set_userpass ac u p)
    | Err e => Err (DEAuth addr e)
    | Panic => Panic
    | OutOfFuel => OutOfFuel
    end
  else Ok ac.

(* one iteration of [for addr, ac := range f.Auths], for the key [addr] the range statement
   produced; the value is the one the map holds at that moment *)
Definition decode_step (addr : bytes) (m : amap) : R decode_err amap :=
  match map_get addr m with
  | None => Ok m                               (* range does not produce a key that is not in the map *)
  | Some ac =>
      do ac <- decode_entry addr ac;
      let m := map_set addr ac m in              (* f.Auths[addr] = ac *)
      if negb (contains slashslash addr) then Ok m      (* continue *)
      else
        let addr1 := url_host addr in
        if beqb addr1 addr then Ok m                    (* continue *)
        else
          let '(skip, ac) :=
            match map_get addr1 m with
            | Some ac1 =>
                if (length (ac_derived ac1) =? 0)%nat
                then (true, ac)                         (* don't override an explicit entry *)
                else (false, ac1)                       (* ac = ac1 *)
            | None => (false, ac)
            end in
          if skip then Ok m
          else
            (* ac.derivedFrom = append(ac.derivedFrom, addr); slices.Sort(ac.derivedFrom);
               f.Auths[addr1] = ac *)
            Ok (map_set addr1 (with_derived ac (sort_bytes (ac_derived ac ++ [addr]))) m)
  end.

Fixpoint decode_loop (sched : list bytes) (m : amap) : R decode_err amap :=
  match sched with
  | [] => Ok m
  | addr :: rest => do m' <- decode_step addr m; decode_loop rest m'
  end.

Definition decode_config_file (sched : list bytes) (doc : config_data) : R decode_err config_data :=
  do m <- decode_loop sched (cd_auths doc);
  Ok {| cd_auths := m; cd_store := cd_store doc; cd_helpers := cd_helpers doc |}.

(* What json.Unmarshal delivers: unique keys, derivedFrom empty. *)
Definition wf_auths (m : amap) : Prop :=
  NoDup (keys m) /\ Forall (fun kv => ac_derived (snd kv) = []) m.

(* What Go guarantees about the keys produced by the range statement, and no more: restricted
   to the keys present before the loop, it is a permutation of them.  Keys that are not original
   (created by the loop body, or not keys at all) may occur anywhere, any number of times. *)
Definition valid_sched (m0 : amap) (sched : list bytes) : Prop :=
  Permutation (filter (fun k => mem_bytes k (keys m0)) sched) (keys m0).

(* The schedule in the shape "a permutation of the original keys, plus a choice per derived key":
   after each original URL-form key, its derived key is produced when [visit] says so (and it is
   not itself an original key, which the range statement would not produce twice). *)
Fixpoint go_sched (m0 : amap) (perm : list bytes) (visit : bytes -> bool) : list bytes :=
  match perm with
  | [] => []
  | k :: rest =>
      let d := url_host k in
      k :: (if contains slashslash k && negb (mem_bytes d (keys m0)) && visit d then [d] else [])
        ++ go_sched m0 rest visit
  end.

(* ---------- EntryForRegistry ---------- *)

(* class of the error a HelperRunner returns *)
Inductive herr :=
  | HNil          (* nil *)
  | HMissing      (* errors.Is(err, ErrHelperNotFound): the helper binary does not exist *)
  | HOther.       (* any other error *)

Definition herr_eqb (a b : herr) : bool :=
  match a, b with HNil, HNil | HMissing, HMissing | HOther, HOther => true | _, _ => false end.

Definition runner_t := bytes -> bytes -> config_entry * herr.

Inductive lookup_err :=
  | LEHelper (e : herr)                 (* the runner's error, returned as is *)
  | LEAmbiguous                         (* ambiguous auth credentials *)
  | LECollision (addrs : list bytes).   (* more than one auths entry for the host *)

(* the part of EntryForRegistry after the helper: auth := c.data.Auths[host] ... *)
Definition auth_result (auth : auth_config) : config_entry * option lookup_err :=
  if nonempty (ac_idtok auth) && nonempty (ac_user auth) then (zero_entry, Some LEAmbiguous)
  else if (1 <? length (ac_derived auth))%nat then (zero_entry, Some (LECollision (ac_derived auth)))
  else ({| ce_refresh := ac_idtok auth; ce_access := ac_regtok auth;
           ce_user := ac_user auth; ce_pass := ac_pass auth |}, None).

Definition table_lookup (c : config_data) (host : bytes) : config_entry * option lookup_err :=
  auth_result (match map_get host (cd_auths c) with Some a => a | None => zero_auth end).

(* helper, ok := c.data.CredHelpers[host]; explicit := true; if !ok { helper = CredsStore; explicit = false } *)
Definition helper_for (c : config_data) (host : bytes) : bytes * bool :=
  match map_get host (cd_helpers c) with
  | Some h => (h, true)
  | None => (cd_store c, false)
  end.

Definition entry_for_registry (c : config_data) (runner : runner_t) (host : bytes)
  : config_entry * option lookup_err :=
  let '(helper, explicit) := helper_for c host in
  if nonempty helper then
    let '(entry, err) := runner helper host in
    if herr_eqb err HNil || explicit || negb (herr_eqb err HMissing)
    then (entry, match err with HNil => None | e => Some (LEHelper e) end)    (* return entry, err *)
    else table_lookup c host       (* the default helper does not exist: fall back *)
  else table_lookup c host.

(* the calls EntryForRegistry makes to the runner: (helperName, serverURL) *)
Definition runner_calls (c : config_data) (host : bytes) : list (bytes * bytes) :=
  let '(helper, _) := helper_for c host in
  if nonempty helper then [(helper, host)] else [].

(* ---------- observable projection ---------- *)

(* what a caller can tell without reading error prose *)
Inductive eclass := ENone | EMissing | EOther.

Definition eclass_eqb (a b : eclass) : bool :=
  match a, b with ENone, ENone | EMissing, EMissing | EOther, EOther => true | _, _ => false end.

Definition class_of (e : option lookup_err) : eclass :=
  match e with
  | None => ENone
  | Some (LEHelper HMissing) => EMissing
  | Some _ => EOther
  end.

Definition observe (r : config_entry * option lookup_err) : config_entry * eclass :=
  (fst r, class_of (snd r)).
