(* Model of ociregistry/ocifilter/select.go (AccessChecker, Select) and
   ociregistry/ocifilter/sub.go (Sub), as they are in /repo now (i.e. with the repairs
   work/fixes/select-star-repository.msg and work/fixes/sub-confinement.msg applied).

   A wrapper is a function from an ARBITRARY backend step function (and an arbitrary
   backend state) to a step function that also returns the list of backend calls it made
   (the trace), so that "the backend is never invoked for ..." is a statement about the
   trace.  The Go methods are reproduced one match arm per method, in the order of the
   source file, with the source's variable names.

   BlobWriter operations: PushBlobChunked / PushBlobChunkedResume of both wrappers return
   the backend's writer itself (return r.r.PushBlobChunked(...)), so an operation on such a
   writer is a call on the backend's object in which no wrapper code runs; the model passes
   [WWrite] etc. to the backend unchanged.

   Iterator results are seen drained ([RList items maybe_error], Iface.v).  The function
   literal that both Repositories methods hand to the backend's iterator is also modelled at
   the level of single yield calls ([repos_drive]), which is where "what happens after an
   error" and "the consumer stops early" live. *)
From Coq Require Import String.
From OCI Require Export Model.Iface Model.Funcs.

(* ------------------------------------------------------------------------------------ *)
(* Decidable equality on the Iface vocabulary (needed to compare observations).        *)
(* ------------------------------------------------------------------------------------ *)

Definition op_eqb (a b : op) : bool :=
  match a, b with
  | GetBlob r d, GetBlob r' d' => beqb r r' && beqb d d'
  | GetBlobRange r d o0 o1, GetBlobRange r' d' o0' o1' =>
      beqb r r' && beqb d d' && Z.eqb o0 o0' && Z.eqb o1 o1'
  | GetManifest r d, GetManifest r' d' => beqb r r' && beqb d d'
  | GetTag r t, GetTag r' t' => beqb r r' && beqb t t'
  | ResolveBlob r d, ResolveBlob r' d' => beqb r r' && beqb d d'
  | ResolveManifest r d, ResolveManifest r' d' => beqb r r' && beqb d d'
  | ResolveTag r t, ResolveTag r' t' => beqb r r' && beqb t t'
  | PushBlob r de c, PushBlob r' de' c' => beqb r r' && desc_eqb de de' && beqb c c'
  | PushBlobChunked r h, PushBlobChunked r' h' => beqb r r' && Z.eqb h h'
  | PushBlobChunkedResume r i o h, PushBlobChunkedResume r' i' o' h' =>
      beqb r r' && beqb i i' && Z.eqb o o' && Z.eqb h h'
  | MountBlob f t d, MountBlob f' t' d' => beqb f f' && beqb t t' && beqb d d'
  | PushManifest r t c m, PushManifest r' t' c' m' => beqb r r' && beqb t t' && beqb c c' && beqb m m'
  | DeleteBlob r d, DeleteBlob r' d' => beqb r r' && beqb d d'
  | DeleteManifest r d, DeleteManifest r' d' => beqb r r' && beqb d d'
  | DeleteTag r t, DeleteTag r' t' => beqb r r' && beqb t t'
  | Repositories st, Repositories st' => beqb st st'
  | Tags r st, Tags r' st' => beqb r r' && beqb st st'
  | Referrers r d a, Referrers r' d' a' => beqb r r' && beqb d d' && beqb a a'
  | WWrite w d, WWrite w' d' => N.eqb w w' && beqb d d'
  | WClose w, WClose w' => N.eqb w w'
  | WSize w, WSize w' => N.eqb w w'
  | WChunkSize w, WChunkSize w' => N.eqb w w'
  | WID w, WID w' => N.eqb w w'
  | WCommit w d, WCommit w' d' => N.eqb w w' && beqb d d'
  | WCancel w, WCancel w' => N.eqb w w'
  | _, _ => false
  end.

Ltac eqb_hyps :=
  repeat match goal with
    | H : _ && _ = true |- _ => apply andb_true_iff in H; destruct H
    | H : beqb _ _ = true |- _ => apply beqb_eq in H
    | H : Z.eqb _ _ = true |- _ => apply Z.eqb_eq in H
    | H : N.eqb _ _ = true |- _ => apply N.eqb_eq in H
    | H : desc_eqb _ _ = true |- _ => apply desc_eqb_eq in H
    | H : err_eqb _ _ = true |- _ => apply err_eqb_eq in H
    end.

Lemma desc_eqb_refl d : desc_eqb d d = true.
Proof. now apply desc_eqb_eq. Qed.
Lemma err_eqb_refl e : err_eqb e e = true.
Proof. now apply err_eqb_eq. Qed.

Lemma op_eqb_eq a b : op_eqb a b = true <-> a = b.
Proof.
  split.
  - destruct a, b; cbn; try discriminate; intros H; eqb_hyps; subst; reflexivity.
  - intros ->. destruct b; cbn;
      rewrite ?beqb_refl, ?Z.eqb_refl, ?N.eqb_refl, ?desc_eqb_refl; reflexivity.
Qed.

Lemma op_eqb_refl o : op_eqb o o = true.
Proof. now apply op_eqb_eq. Qed.

Definition res_eqb (a b : res) : bool :=
  match a, b with
  | RDesc d, RDesc d' => desc_eqb d d'
  | RRead d x, RRead d' x' => desc_eqb d d' && beqb x x'
  | RList l e, RList l' e' => list_eqb beqb l l' && option_eqb err_eqb e e'
  | RDescs l e, RDescs l' e' => list_eqb desc_eqb l l' && option_eqb err_eqb e e'
  | RWriter w, RWriter w' => N.eqb w w'
  | RN n, RN n' => Z.eqb n n'
  | RStr x, RStr x' => beqb x x'
  | RUnit, RUnit => true
  | _, _ => false
  end.

Lemma option_eqb_eq {A} (eqb : A -> A -> bool) :
  (forall a b, eqb a b = true <-> a = b) ->
  forall a b, option_eqb eqb a b = true <-> a = b.
Proof.
  intros H [a|] [b|]; cbn; split; try congruence.
  - intros E. apply H in E. now subst.
  - intros E. injection E as ->. now apply H.
Qed.

Lemma res_eqb_eq a b : res_eqb a b = true <-> a = b.
Proof.
  split.
  - destruct a, b; cbn; try discriminate; intros H; eqb_hyps; subst; try reflexivity.
    + apply (list_eqb_eq beqb beqb_eq) in H. apply (option_eqb_eq err_eqb err_eqb_eq) in H0. now subst.
    + apply (list_eqb_eq desc_eqb desc_eqb_eq) in H. apply (option_eqb_eq err_eqb err_eqb_eq) in H0. now subst.
  - intros ->. destruct b; cbn; rewrite ?desc_eqb_refl, ?beqb_refl, ?N.eqb_refl, ?Z.eqb_refl; try reflexivity.
    + apply andb_true_iff; split; [now apply (list_eqb_eq beqb beqb_eq) | now apply (option_eqb_eq err_eqb err_eqb_eq)].
    + apply andb_true_iff; split; [now apply (list_eqb_eq desc_eqb desc_eqb_eq) | now apply (option_eqb_eq err_eqb err_eqb_eq)].
Qed.

Definition result_eqb (a b : result) : bool :=
  match a, b with
  | Ok x, Ok y => res_eqb x y
  | Err e, Err e' => err_eqb e e'
  | Panic, Panic => true
  | OutOfFuel, OutOfFuel => true
  | _, _ => false
  end.

Lemma result_eqb_eq a b : result_eqb a b = true <-> a = b.
Proof.
  destruct a, b; cbn; split; try congruence; intros H.
  - apply res_eqb_eq in H. now subst.
  - injection H as ->. now apply res_eqb_eq.
  - apply err_eqb_eq in H. now subst.
  - injection H as ->. apply err_eqb_refl.
Qed.

Definition pair_eqb {A B} (ea : A -> A -> bool) (eb : B -> B -> bool) (x y : A * B) : bool :=
  ea (fst x) (fst y) && eb (snd x) (snd y).

Lemma pair_eqb_eq {A B} (ea : A -> A -> bool) (eb : B -> B -> bool) :
  (forall a b, ea a b = true <-> a = b) -> (forall a b, eb a b = true <-> a = b) ->
  forall x y, pair_eqb ea eb x y = true <-> x = y.
Proof.
  intros Ha Hb [a b] [a' b']; unfold pair_eqb; cbn. rewrite andb_true_iff, Ha, Hb.
  split; [intros [-> ->]; reflexivity | intros H; injection H; auto].
Qed.

(* ------------------------------------------------------------------------------------ *)
(* Steps that report the backend calls they make.                                       *)
(* ------------------------------------------------------------------------------------ *)

(* [C] is the type of a backend-call record: [op] for select.go (the context is passed on
   untouched), [scope * op] for sub.go (which rewrites the context). *)
Definition tstep (B C : Type) := B -> op -> B * result * list C.

Fixpoint trun {B C} (step : tstep B C) (s : B) (h : list op) : B * list (result * list C) :=
  match h with
  | [] => (s, [])
  | o :: h' => let '(s1, r, t) := step s o in
               let '(s2, rs) := trun step s1 h' in (s2, (r, t) :: rs)
  end.

(* all backend calls of a run, in order *)
Definition ttrace {B C} (step : tstep B C) (s : B) (h : list op) : list C :=
  concat (map snd (snd (trun step s h))).

(* the Go method an operation is a call of (None: a BlobWriter operation) *)
Definition op_method (o : op) : option method :=
  match o with
  | GetBlob _ _ => Some MGetBlob | GetBlobRange _ _ _ _ => Some MGetBlobRange
  | GetManifest _ _ => Some MGetManifest | GetTag _ _ => Some MGetTag
  | ResolveBlob _ _ => Some MResolveBlob | ResolveManifest _ _ => Some MResolveManifest
  | ResolveTag _ _ => Some MResolveTag | PushBlob _ _ _ => Some MPushBlob
  | PushBlobChunked _ _ => Some MPushBlobChunked
  | PushBlobChunkedResume _ _ _ _ => Some MPushBlobChunkedResume
  | MountBlob _ _ _ => Some MMountBlob | PushManifest _ _ _ _ => Some MPushManifest
  | DeleteBlob _ _ => Some MDeleteBlob | DeleteManifest _ _ => Some MDeleteManifest
  | DeleteTag _ _ => Some MDeleteTag | Repositories _ => Some MRepositories
  | Tags _ _ => Some MTags | Referrers _ _ _ => Some MReferrers
  | WWrite _ _ | WClose _ | WSize _ | WChunkSize _ | WID _ | WCommit _ _ | WCancel _ => None
  end.

(* ociregistry.ErrorSeq[T](err): an iterator that makes exactly one yield, carrying err *)
Definition error_seq (m : method) (e : err) : result :=
  match m with
  | MReferrers => Ok (RDescs [] (Some e))
  | _ => Ok (RList [] (Some e))
  end.

(* the error a result carries, whichever way the method delivers errors *)
Definition result_error (r : result) : option err :=
  match r with
  | Err e => Some e
  | Ok (RList _ (Some e)) | Ok (RDescs _ (Some e)) => Some e
  | _ => None
  end.

(* ------------------------------------------------------------------------------------ *)
(* The function literal of both Repositories methods, yield by yield.                   *)
(* ------------------------------------------------------------------------------------ *)

(* one call of a yield function: yield(item, err) *)
Definition yld := (bytes * option err)%type.

(*    r.r.Repositories(ctx, startAfter)(func(repo string, err error) bool {
          if err != nil { yield("", err); return false }
          if <repo is filtered out> { return true }
          return yield(<mapped repo>, nil)
      })
   [keep repo] = Some mapped / None (filtered out).  [evs] is what the backend's iterator
   hands to its callback for as long as the callback answers true (a backend that follows
   the iterator protocol stops at the first false).  [more i] is the answer of the
   wrapper's consumer to its i-th yield (from 0).  Result: the yields the consumer
   received, and how many of the backend's events were delivered. *)
Fixpoint repos_drive (keep : bytes -> option bytes) (more : nat -> bool) (i : nat) (evs : list yld)
  : list yld * nat :=
  match evs with
  | [] => ([], 0%nat)
  | (repo, Some err) :: _ => ([([], Some err)], 1%nat)
  | (repo, None) :: evs' =>
      match keep repo with
      | None => let '(ys, n) := repos_drive keep more i evs' in (ys, S n)
      | Some p =>
          if more i
          then let '(ys, n) := repos_drive keep more (S i) evs' in ((p, None) :: ys, S n)
          else ([(p, None)], 1%nat)
      end
  end.

(* a drained result as the yields that produced it *)
Definition yields_of (l : list bytes) (e : option err) : list yld :=
  map (fun r => (r, None)) l ++ match e with Some e => [([], Some e)] | None => [] end.

Fixpoint filter_map {A C} (f : A -> option C) (l : list A) : list C :=
  match l with
  | [] => []
  | a :: l' => match f a with Some b => b :: filter_map f l' | None => filter_map f l' end
  end.

(* the drained view of the same function literal: applied to a backend result *)
Definition repos_result (keep : bytes -> option bytes) (r : result) : result :=
  match r with
  | Ok (RList l e) => Ok (RList (filter_map keep l) e)
  | _ => r
  end.

(* ------------------------------------------------------------------------------------ *)
(* select.go                                                                            *)
(* ------------------------------------------------------------------------------------ *)

Inductive akind := AccessRead | AccessWrite | AccessDelete | AccessList.

Definition akind_eqb (a b : akind) : bool :=
  match a, b with
  | AccessRead, AccessRead | AccessWrite, AccessWrite
  | AccessDelete, AccessDelete | AccessList, AccessList => true
  | _, _ => false
  end.

Lemma akind_eqb_eq a b : akind_eqb a b = true <-> a = b.
Proof. destruct a, b; cbn; split; congruence. Qed.

(* check func(repoName string, access AccessKind) error ; nil = None *)
Definition checker := bytes -> akind -> option err.

Definition star : bytes := s "*".

(* the two sentinel errors Select returns (ociregistry/error.go) *)
Definition ErrDenied : err := E DENIED (s "ErrDenied").
Definition ErrNameUnknown : err := E NAME_UNKNOWN (s "ErrNameUnknown").

(* the check function Select builds from allow *)
Definition select_check (allow : bytes -> bool) : checker :=
  fun repoName access =>
    if allow repoName then None
    else if akind_eqb access AccessWrite then Some ErrDenied
    else Some ErrNameUnknown.

Section AccessChecker.
  Context {B : Type}.
  Variable check : checker.      (* field check *)
  Variable listAll : bool.       (* field listAll: false from AccessChecker, true from Select *)
  Variable bstep : registry B.   (* field r, with its state threaded *)

  (* return r.r.M(ctx, args...) *)
  Definition delegate (st : B) (o : op) : B * result * list op :=
    let '(st', res) := bstep st o in (st', res, [o]).

  (* r.check(repo, AccessRead) != nil  ==> the repository is omitted *)
  Definition ac_keep (repo : bytes) : option bytes :=
    match check repo AccessRead with
    | Some _ => None
    | None => Some repo
    end.

  Definition ac_step : tstep B op := fun st o =>
    match o with
    | GetBlob repo digest =>
        match check repo AccessRead with
        | Some err => (st, Err err, [])
        | None => delegate st (GetBlob repo digest)
        end
    | GetBlobRange repo digest offset0 offset1 =>
        match check repo AccessRead with
        | Some err => (st, Err err, [])
        | None => delegate st (GetBlobRange repo digest offset0 offset1)
        end
    | GetManifest repo digest =>
        match check repo AccessRead with
        | Some err => (st, Err err, [])
        | None => delegate st (GetManifest repo digest)
        end
    | GetTag repo tagName =>
        match check repo AccessRead with
        | Some err => (st, Err err, [])
        | None => delegate st (GetTag repo tagName)
        end
    | ResolveBlob repo digest =>
        match check repo AccessRead with
        | Some err => (st, Err err, [])
        | None => delegate st (ResolveBlob repo digest)
        end
    | ResolveManifest repo digest =>
        match check repo AccessRead with
        | Some err => (st, Err err, [])
        | None => delegate st (ResolveManifest repo digest)
        end
    | ResolveTag repo tagName =>
        match check repo AccessRead with
        | Some err => (st, Err err, [])
        | None => delegate st (ResolveTag repo tagName)
        end
    | PushBlob repo desc rd =>
        match check repo AccessWrite with
        | Some err => (st, Err err, [])
        | None => delegate st (PushBlob repo desc rd)
        end
    | PushBlobChunked repo chunkSize =>
        match check repo AccessWrite with
        | Some err => (st, Err err, [])
        | None => delegate st (PushBlobChunked repo chunkSize)
        end
    | PushBlobChunkedResume repo id offset chunkSize =>
        match check repo AccessWrite with
        | Some err => (st, Err err, [])
        | None => delegate st (PushBlobChunkedResume repo id offset chunkSize)
        end
    | MountBlob fromRepo toRepo digest =>
        match check fromRepo AccessRead with
        | Some err => (st, Err err, [])
        | None =>
            match check toRepo AccessWrite with
            | Some err => (st, Err err, [])
            | None => delegate st (MountBlob fromRepo toRepo digest)
            end
        end
    | PushManifest repo tag contents mediaType =>
        match check repo AccessWrite with
        | Some err => (st, Err err, [])
        | None => delegate st (PushManifest repo tag contents mediaType)
        end
    | DeleteBlob repo digest =>
        match check repo AccessDelete with
        | Some err => (st, Err err, [])
        | None => delegate st (DeleteBlob repo digest)
        end
    | DeleteManifest repo digest =>
        match check repo AccessDelete with
        | Some err => (st, Err err, [])
        | None => delegate st (DeleteManifest repo digest)
        end
    | DeleteTag repo name =>
        match check repo AccessDelete with
        | Some err => (st, Err err, [])
        | None => delegate st (DeleteTag repo name)
        end
    | Repositories startAfter =>
        match (if listAll then None else check star AccessList) with
        | Some err => (st, error_seq MRepositories err, [])
        | None =>
            let '(st', res) := bstep st (Repositories startAfter) in
            (st', repos_result ac_keep res, [Repositories startAfter])
        end
    | Tags repo startAfter =>
        match check repo AccessList with
        | Some err => (st, error_seq MTags err, [])
        | None => delegate st (Tags repo startAfter)
        end
    | Referrers repo digest artifactType =>
        match check repo AccessList with
        | Some err => (st, error_seq MReferrers err, [])
        | None => delegate st (Referrers repo digest artifactType)
        end
    (* operations on the backend's own writer object: no wrapper code runs *)
    | WWrite _ _ | WClose _ | WSize _ | WChunkSize _ | WID _ | WCommit _ _ | WCancel _ =>
        delegate st o
    end.
End AccessChecker.

(* func AccessChecker(r, check) / func Select(r, allow) *)
Definition access_checker {B} (check : checker) (bstep : registry B) : tstep B op :=
  ac_step check false bstep.
Definition select {B} (allow : bytes -> bool) (bstep : registry B) : tstep B op :=
  ac_step (select_check allow) true bstep.

(* ---- the embedded *ociregistry.Funcs ---- *)

(* accessCheckerRegistry (and subRegistry) embed a *Funcs that is never assigned: nil.  A
   method of Interface that the wrapper type does not declare itself is promoted from that
   field, i.e. it is a call on the nil table of func.go (Model/Funcs.v, property C20). *)
Definition nil_funcs : table := {| t_nil := true; t_ctor := false; t_set := fun _ => false |}.

(* fmt.Errorf("%s: %w", methodName, ErrUnsupported) *)
Definition unsupported_err (name : bytes) : err := E UNSUPPORTED name.

Definition promoted_result (m : method) : result :=
  match call nil_funcs m [] with
  | CUnsupported name 0 => Err (unsupported_err name)
  | CUnsupported name _ => error_seq m (unsupported_err name)
  | CCtorError name _ 0 => Err (E ENone name)
  | CCtorError name _ _ => error_seq m (E ENone name)
  | CDelegated _ _ => Panic            (* a nil table has no function to delegate to *)
  | CPanic => Panic
  end.

(* The method set of a wrapper type: [declared m] = the type declares method m itself and
   the step function is its body; otherwise the promoted method runs. *)
Definition with_embedded_funcs {B C} (declared : method -> bool) (step : tstep B C) : tstep B C :=
  fun st o =>
    match op_method o with
    | Some m => if declared m then step st o else (st, promoted_result m, [])
    | None => step st o
    end.

(* select.go and sub.go declare all eighteen *)
Definition declared_all : method -> bool := fun _ => true.

(* the access kinds each method asks for, in the order of the calls to check: the table a
   reader of the property would write down (used by the statements, not by ac_step) *)
Definition op_checks (o : op) : list (bytes * akind) :=
  match o with
  | GetBlob r _ | GetBlobRange r _ _ _ | GetManifest r _ | GetTag r _
  | ResolveBlob r _ | ResolveManifest r _ | ResolveTag r _ => [(r, AccessRead)]
  | PushBlob r _ _ | PushBlobChunked r _ | PushBlobChunkedResume r _ _ _
  | PushManifest r _ _ _ => [(r, AccessWrite)]
  | MountBlob f t _ => [(f, AccessRead); (t, AccessWrite)]
  | DeleteBlob r _ | DeleteManifest r _ | DeleteTag r _ => [(r, AccessDelete)]
  | Tags r _ | Referrers r _ _ => [(r, AccessList)]
  | Repositories _ => []
  | _ => []
  end.

(* first rejection among a list of checks *)
Fixpoint first_denial (check : checker) (l : list (bytes * akind)) : option err :=
  match l with
  | [] => None
  | (r, k) :: l' => match check r k with Some e => Some e | None => first_denial check l' end
  end.

(* the checks the wrapper makes before calling the backend, including the one on "*" *)
Definition pre_checks (listAll : bool) (o : op) : list (bytes * akind) :=
  match o with
  | Repositories _ => if listAll then [] else [(star, AccessList)]
  | _ => op_checks o
  end.

(* ------------------------------------------------------------------------------------ *)
(* sub.go                                                                               *)
(* ------------------------------------------------------------------------------------ *)

(* ociauth.ResourceScope *)
Record rscope := RS { rs_type : bytes; rs_resource : bytes; rs_action : bytes }.

Definition rs_eqb (a b : rscope) : bool :=
  beqb (rs_type a) (rs_type b) && beqb (rs_resource a) (rs_resource b) && beqb (rs_action a) (rs_action b).

Lemma rs_eqb_eq a b : rs_eqb a b = true <-> a = b.
Proof.
  destruct a, b; unfold rs_eqb; cbn. rewrite !andb_true_iff, !beqb_eq.
  split; [intros [[-> ->] ->]; reflexivity | intros H; injection H; auto].
Qed.

(* ResourceScope.Compare *)
Definition rs_compare (rs1 rs2 : rscope) : comparison :=
  match bcmp (rs_type rs1) (rs_type rs2) with
  | Eq => match bcmp (rs_resource rs1) (rs_resource rs2) with
          | Eq => bcmp (rs_action rs1) (rs_action rs2)
          | c => c
          end
  | c => c
  end.

(* An ociauth.Scope as far as sub.go can tell: unlimited, or the resource scopes its Iter
   method yields (in Compare order, without duplicates; that NewScope followed by Iter is
   "sort and remove duplicates" is property C09's business and is re-checked here on every
   case by the correspondence).  The empty list is the empty scope = no scope in the
   context. *)
Inductive scope := ScUnlimited | ScSet (l : list rscope).

Definition scope_eqb (a b : scope) : bool :=
  match a, b with
  | ScUnlimited, ScUnlimited => true
  | ScSet l, ScSet l' => list_eqb rs_eqb l l'
  | _, _ => false
  end.

Lemma scope_eqb_eq a b : scope_eqb a b = true <-> a = b.
Proof.
  destruct a, b; cbn; split; try congruence; intros H.
  - apply (list_eqb_eq rs_eqb rs_eqb_eq) in H. now subst.
  - injection H as ->. now apply (list_eqb_eq rs_eqb rs_eqb_eq).
Qed.

(* slices.SortFunc(rss, ResourceScope.Compare): any sorting function gives the same list up
   to the order of Compare-equal (= identical) elements; insertion sort here *)
Fixpoint rs_insert (a : rscope) (l : list rscope) : list rscope :=
  match l with
  | [] => [a]
  | b :: l' => match rs_compare a b with
               | Gt => b :: rs_insert a l'
               | _ => a :: l
               end
  end.
Definition rs_sort (l : list rscope) : list rscope := fold_right rs_insert [] l.

(* slices.Compact *)
Fixpoint rs_compact (l : list rscope) : list rscope :=
  match l with
  | a :: (b :: _) as l' => if rs_eqb a b then rs_compact l' else a :: rs_compact l'
  | _ => l
  end.

(* ociauth.NewScope(scopes...) observed through Iter *)
Definition new_scope (l : list rscope) : list rscope := rs_compact (rs_sort l).

Definition TypeRepository : bytes := s "repository".
Definition slash : N := 47.

(* a backend whose behaviour may depend on the scope found in the context *)
Definition ctx_registry (B : Type) := scope -> registry B.
Definition bcall := (scope * op)%type.

Definition bcall_eqb : bcall -> bcall -> bool := pair_eqb scope_eqb op_eqb.

Section Sub.
  Context {B : Type}.
  Variable prefix : bytes.           (* field prefix (Sub never builds one with prefix = "") *)
  Variable cbstep : ctx_registry B.  (* field r *)

  (* func (r *subRegistry) repo(name string) string { return r.prefix + "/" + name } *)
  Definition sub_repo (name : bytes) : bytes := prefix ++ [slash] ++ name.

  (* func (r *subRegistry) mapScopes(ctx) context.Context *)
  Definition map_rscope (rs : rscope) : rscope :=
    if beqb (rs_type rs) TypeRepository
    then RS (rs_type rs) (sub_repo (rs_resource rs)) (rs_action rs)
    else rs.

  Definition map_scopes (ctx : scope) : scope :=
    match ctx with
    | ScUnlimited => ScUnlimited                    (* scope.IsUnlimited(): return ctx *)
    | ScSet [] => ScSet []                          (* scope.IsEmpty(): return ctx *)
    | ScSet l => ScSet (new_scope (map map_rscope l))
    end.

  (* return r.r.M(ctx, args...) *)
  Definition sub_call (ctx : scope) (st : B) (o : op) : B * result * list bcall :=
    let '(st', res) := cbstep ctx st o in (st', res, [(ctx, o)]).

  (* strings.CutPrefix(repo, p) *)
  Definition cut_prefix (p repo : bytes) : option bytes :=
    if has_prefix p repo then Some (skipn (length p) repo) else None.

  Definition sub_step (ctx : scope) : tstep B bcall := fun st o =>
    match o with
    | GetBlob repo digest =>
        let ctx := map_scopes ctx in
        sub_call ctx st (GetBlob (sub_repo repo) digest)
    | GetBlobRange repo digest offset0 offset1 =>
        let ctx := map_scopes ctx in
        sub_call ctx st (GetBlobRange (sub_repo repo) digest offset0 offset1)
    | GetManifest repo digest =>
        let ctx := map_scopes ctx in
        sub_call ctx st (GetManifest (sub_repo repo) digest)
    | GetTag repo tagName =>
        let ctx := map_scopes ctx in
        sub_call ctx st (GetTag (sub_repo repo) tagName)
    | ResolveBlob repo digest =>
        let ctx := map_scopes ctx in
        sub_call ctx st (ResolveBlob (sub_repo repo) digest)
    | ResolveManifest repo digest =>
        let ctx := map_scopes ctx in
        sub_call ctx st (ResolveManifest (sub_repo repo) digest)
    | ResolveTag repo tagName =>
        let ctx := map_scopes ctx in
        sub_call ctx st (ResolveTag (sub_repo repo) tagName)
    | PushBlob repo desc rd =>
        let ctx := map_scopes ctx in
        sub_call ctx st (PushBlob (sub_repo repo) desc rd)
    | PushBlobChunked repo chunkSize =>
        let ctx := map_scopes ctx in
        sub_call ctx st (PushBlobChunked (sub_repo repo) chunkSize)
    | PushBlobChunkedResume repo id offset chunkSize =>
        let ctx := map_scopes ctx in
        sub_call ctx st (PushBlobChunkedResume (sub_repo repo) id offset chunkSize)
    | MountBlob fromRepo toRepo digest =>
        let ctx := map_scopes ctx in
        sub_call ctx st (MountBlob (sub_repo fromRepo) (sub_repo toRepo) digest)
    | PushManifest repo tag contents mediaType =>
        let ctx := map_scopes ctx in
        sub_call ctx st (PushManifest (sub_repo repo) tag contents mediaType)
    | DeleteBlob repo digest =>
        let ctx := map_scopes ctx in
        sub_call ctx st (DeleteBlob (sub_repo repo) digest)
    | DeleteManifest repo digest =>
        let ctx := map_scopes ctx in
        sub_call ctx st (DeleteManifest (sub_repo repo) digest)
    | DeleteTag repo name =>
        let ctx := map_scopes ctx in
        sub_call ctx st (DeleteTag (sub_repo repo) name)
    | Repositories startAfter =>
        let ctx := map_scopes ctx in
        let p := prefix ++ [slash] in
        let startAfter := match startAfter with [] => startAfter | _ => p ++ startAfter end in
        let '(st', res) := cbstep ctx st (Repositories startAfter) in
        (st', repos_result (cut_prefix p) res, [(ctx, Repositories startAfter)])
    | Tags repo startAfter =>
        let ctx := map_scopes ctx in
        sub_call ctx st (Tags (sub_repo repo) startAfter)
    | Referrers repo digest artifactType =>
        let ctx := map_scopes ctx in
        sub_call ctx st (Referrers (sub_repo repo) digest artifactType)
    (* operations on the backend's own writer object: no wrapper code runs, and no context
       is passed (the writer keeps the one it was created with) *)
    | WWrite _ _ | WClose _ | WSize _ | WChunkSize _ | WID _ | WCommit _ _ | WCancel _ =>
        sub_call ctx st o
    end.
End Sub.

(* func Sub(r, pathPrefix): the registry itself when the prefix is empty *)
Definition sub {B} (pathPrefix : bytes) (cbstep : ctx_registry B) (ctx : scope) : tstep B bcall :=
  match pathPrefix with
  | [] => fun st o => let '(st', res) := cbstep ctx st o in (st', res, [(ctx, o)])
  | _ => sub_step pathPrefix cbstep ctx
  end.

(* ---- what the statements about Sub are phrased with ---- *)

(* the operation with every repository argument renamed by f; a Repositories start point is
   not a repository argument and is left alone *)
Definition map_op_repos (f : bytes -> bytes) (o : op) : op :=
  match o with
  | GetBlob r d => GetBlob (f r) d
  | GetBlobRange r d o0 o1 => GetBlobRange (f r) d o0 o1
  | GetManifest r d => GetManifest (f r) d
  | GetTag r t => GetTag (f r) t
  | ResolveBlob r d => ResolveBlob (f r) d
  | ResolveManifest r d => ResolveManifest (f r) d
  | ResolveTag r t => ResolveTag (f r) t
  | PushBlob r de c => PushBlob (f r) de c
  | PushBlobChunked r h => PushBlobChunked (f r) h
  | PushBlobChunkedResume r i off h => PushBlobChunkedResume (f r) i off h
  | MountBlob a b d => MountBlob (f a) (f b) d
  | PushManifest r t c m => PushManifest (f r) t c m
  | DeleteBlob r d => DeleteBlob (f r) d
  | DeleteManifest r d => DeleteManifest (f r) d
  | DeleteTag r t => DeleteTag (f r) t
  | Tags r st => Tags (f r) st
  | Referrers r d a => Referrers (f r) d a
  | _ => o
  end.

(* the repository names a scope mentions *)
Definition scope_repos (c : scope) : list bytes :=
  match c with
  | ScUnlimited => []
  | ScSet l => map rs_resource (filter (fun rs => beqb (rs_type rs) TypeRepository) l)
  end.

(* keep the items lexically after start (all of them when start is empty): what
   Repositories(ctx, start) means for a registry that honours the Lister contract *)
Definition after (start : bytes) (l : list bytes) : list bytes :=
  match start with
  | [] => l
  | _ => filter (fun n => bltb start n) l
  end.
Definition after_result (start : bytes) (r : result) : result :=
  match r with
  | Ok (RList l e) => Ok (RList (after start l) e)
  | _ => r
  end.

(* The underlying registry restricted to the repositories under prefix/, with the prefix
   removed: the specification Sub is compared with.  An operation on name n is the
   operation on prefix/n under the context whose repository scopes are renamed the same
   way; the repository listing is the complete listing of the underlying registry, reduced
   to the names under prefix/, stripped, and then cut at the start point. *)
Section Restricted.
  Context {B : Type}.
  Variable prefix : bytes.
  Variable cbstep : ctx_registry B.

  Definition restricted_step (ctx : scope) : registry B := fun st o =>
    match o with
    | Repositories start =>
        let '(st', res) := cbstep (map_scopes prefix ctx) st (Repositories []) in
        (st', after_result start (repos_result (cut_prefix (prefix ++ [slash])) res))
    | WWrite _ _ | WClose _ | WSize _ | WChunkSize _ | WID _ | WCommit _ _ | WCancel _ =>
        cbstep ctx st o
    | _ => cbstep (map_scopes prefix ctx) st (map_op_repos (fun n => prefix ++ [slash] ++ n) o)
    end.
End Restricted.

(* The code as it was before work/fixes/sub-confinement.msg (path.Join in repo(), start point
   passed on unprefixed) is kept in Model/FilterLegacy.v with its refutations, so that the
   corpus witnesses keep their meaning. *)
