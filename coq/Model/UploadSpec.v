(* The specification of C04 as a checker over an upload script and what was observed when
   it ran (per operation: result, then Size() of the writer in hand; at the end: what the
   registry holds under each digest of interest).

   The checker knows nothing about chunks, buffers, Content-Range or HTTP.  It tracks one
   thing: [g], the bytes the script has legitimately written so far (written through a
   writer positioned where the registry is).  It expects

     - every operation of a well-positioned writer to succeed, Size() to be len g, and a
       Commit whose digest is hash g to store exactly g (in every underlying registry);
     - a Commit with another digest to fail and nothing to be stored;
     - after a resume at an explicit offset other than len g: every Write / Close / Commit
       either succeeds or is refused as range-invalid (HTTP 416 over HTTP), and when the
       script did send bytes through that writer a refusal has been reported by the time the
       writer is closed or committed; those bytes are not part of g: the rest of the script
       (resume at the right place, further writes, commit hash g) must still succeed, which
       is what "does not alter the upload" means to an observer;
     - nothing (the check stops) from the one point the property excludes, a resume by
       asking the registry when exactly one byte has been received, and from scripts that
       leave the shapes above (a Write after Close, a resume without Close, ...). *)
From Coq Require Import String.
From OCI Require Export Model.Upload.

Local Open Scope Z_scope.

Inductive cstate :=
  | CInit
  | COpen (g : bytes)                              (* a well-positioned writer is open *)
  | CClosed (g : bytes)                            (* it has been closed *)
  | CEp (g : bytes) (seen : bool) (sent : bytes)   (* an open writer at a wrong offset *)
  | CEpClosed (g : bytes)                          (* that writer closed / its commit refused *)
  | CDone (committed : option (bytes * bytes))     (* after Commit: (digest, content) stored *)
  | CStop.                                         (* no further expectation *)

Definition is_range_refusal (http : bool) (r : ures) : bool :=
  match r with
  | UErr RANGE_INVALID st => if http then st =? 416 else (st =? 0) || (st =? 416)
  | _ => false
  end.
Definition is_uerr (r : ures) : bool := match r with UErr _ _ => true | _ => false end.
Definition is_uok (n : Z) (r : ures) : bool := match r with UOk m => m =? n | _ => false end.

Section Check.
  Variable hash : bytes -> bytes.
  Variable http : bool.

  (* new state and whether the observation is acceptable *)
  Definition check_step (cs : cstate) (o : uop) (ob : uobs) : cstate * bool :=
    let r := uo_res ob in
    let sz := uo_size ob in
    match cs, o with
    | _, UCommit [] => (CStop, true)            (* the empty string is not a digest *)
    | CInit, UStart _ => (COpen [], is_uok 0 r && (sz =? 0))
    | COpen g, UWrite d => (COpen (g ++ d), is_uok (blen d) r && (sz =? blen (g ++ d)))
    | COpen g, UClose => (CClosed g, is_uok 0 r && (sz =? blen g))
    | COpen g, UCommit dg =>
        if beqb dg (hash g) then (CDone (Some (dg, g)), is_uok (blen g) r)
        else (CDone None, is_uerr r)
    | CClosed g, UResume MSize _ => (COpen g, is_uok 0 r && (sz =? blen g))
    | CClosed g, UResume MInfo _ | CEpClosed g, UResume MInfo _ =>
        if blen g =? 1 then (CStop, true)
        else (COpen g, is_uok 0 r && (sz =? blen g))
    | CClosed g, UResume (MAt off) _ | CEpClosed g, UResume (MAt off) _ =>
        if off =? blen g then (COpen g, is_uok 0 r && (sz =? blen g))
        else if 0 <=? off then (CEp g false [], is_uok 0 r)
        else (CStop, true)
    | CEp g seen sent, UWrite d =>
        (CEp g (seen || is_uerr r) (sent ++ d), is_uok (blen d) r || is_range_refusal http r)
    | CEp g seen sent, UClose =>
        (CEpClosed g,
         (is_uok 0 r || is_range_refusal http r)
         && (match sent with [] => true | _ => seen || is_uerr r end))
    | CEp g seen sent, UCommit _ =>
        match sent, seen with
        | _ :: _, false => (CEpClosed g, is_range_refusal http r)
        | _, _ => (CStop, true)
        end
    | _, _ => (CStop, true)
    end.

  Fixpoint check_ops (cs : cstate) (ops : list uop) (obs : list uobs) : cstate * bool :=
    match ops, obs with
    | [], [] => (cs, true)
    | o :: ops', ob :: obs' =>
        let '(cs1, ok) := check_step cs o ob in
        if ok then check_ops cs1 ops' obs' else (cs1, false)
    | _, _ => (cs, false)                   (* one observation per operation *)
    end.

  (* what the registries must hold for digest d at the end *)
  Definition expected_content (cs : cstate) (d : bytes) : option (option bytes) :=
    match cs with
    | CStop => None                                   (* no expectation *)
    | CDone (Some (dg, g)) => Some (if beqb d dg then Some g else None)
    | _ => Some None
    end.

  Definition obytes_eq (a b : option bytes) : bool :=
    match a, b with
    | None, None => true
    | Some u, Some v => beqb u v
    | _, _ => false
    end.

  Definition check_stored (cs : cstate) (stored : list (bytes * list (option bytes))) : bool :=
    forallb (fun p => match expected_content cs (fst p) with
                      | None => true
                      | Some e => forallb (obytes_eq e) (snd p)
                      end) stored.

  Definition check (ops : list uop) (obs : list uobs) (stored : list (bytes * list (option bytes))) : bool :=
    let '(cs, ok) := check_ops CInit ops obs in
    ok && check_stored cs stored.
End Check.

(* The bytes a script hands over plus the explicit offsets it names.  Offsets and sizes are
   int64 in Go; the specification speaks about scripts whose total fits (a script that makes
   offset + length overflow int64 is outside it). *)
Fixpoint weight (ops : list uop) : Z :=
  match ops with
  | [] => 0
  | UWrite d :: ops' => blen d + weight ops'
  | UResume (MAt off) _ :: ops' => Z.max 0 off + weight ops'
  | _ :: ops' => weight ops'
  end.
Definition fits (ops : list uop) : bool := weight ops <=? MAX64.
