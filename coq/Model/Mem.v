(* Model of ociregistry/ocimem: the in-memory registry, implementation-shaped.

   Go maps are association lists; every method of *Registry and of *Buffer is one case of
   [step].  What the model does not contain is a Section variable: the hash
   (digest.FromBytes), digest / repository / tag validity (go-digest Validate,
   ociref.IsValidRepository, ociref.IsValidTag — modelled in Model/Ref.v for C17),
   and JSON decoding of image manifests and indexes.  Random upload IDs are a counter
   (the harness canonicalises real IDs by creation order).

   The model follows the code after the repairs recorded in known_findings.json:
   CheckDescriptor mismatches carry DIGEST_INVALID / SIZE_INVALID and PushBlob keeps them
   (finding 17), refersTo walks a child manifest with its stored media type (finding 11),
   under ImmutableTags PushManifest refuses to re-store a digest under another media type
   (C14 fix ocimem-immutable-media-type). *)
From Coq Require Import String.
From OCI Require Export Base.AList Base.BytesSort Model.Iface.

Record image_manifest := { im_layers : list desc; im_config : desc; im_subject : option desc }.
Record index_manifest := { ix_manifests : list desc; ix_subject : option desc }.

Inductive refkind := KSubject | KBlob | KManifest.

Record blob := { b_media : bytes; b_data : bytes; b_subject : bytes }.

Record buffer := {
  u_repo : bytes;            (* the repository the commit callback stores into *)
  u_id : bytes;              (* uuid *)
  u_buf : bytes;
  u_check : Z;               (* checkStartOffset; -1 = no check pending *)
  u_committed : bool;
  u_desc : desc;
  u_err : option err         (* commitErr *)
}.

Record repo := {
  tags : alist desc;
  manifests : alist blob;
  blobs : alist blob;
  uploads : alist N          (* upload id -> index into [bufs] *)
}.

Record state := { repos : alist repo; bufs : list buffer; next_id : N }.

Record config := { immutable_tags : bool }.

Definition init : state := {| repos := []; bufs := []; next_id := 0 |}.
Definition empty_repo : repo := {| tags := []; manifests := []; blobs := []; uploads := [] |}.

Definition MT_IMAGE : bytes := s "application/vnd.oci.image.manifest.v1+json".
Definition MT_INDEX : bytes := s "application/vnd.oci.image.index.v1+json".
Definition MT_OCTET : bytes := s "application/octet-stream".
Definition EMPTY_HASH : bytes :=
  s "sha256:e3b0c44298fc1c149afbf4c8996fb92427ae41e4649b934ca495991b7852b855".

(* error values: the code is what the layers above can observe *)
Definition e_name_unknown := E NAME_UNKNOWN (s "name unknown").
Definition e_name_invalid := E NAME_INVALID (s "name invalid").
Definition e_blob_unknown := E BLOB_UNKNOWN (s "blob unknown").
Definition e_manifest_unknown := E MANIFEST_UNKNOWN (s "manifest unknown").
Definition e_plain (what : bytes) := E ENone what.

(* decimal rendering for canonical upload ids "#<n>" *)
Fixpoint dec_digits (fuel : nat) (n : N) (acc : bytes) : bytes :=
  match fuel with
  | O => acc
  | S f => let acc' := (48 + n mod 10) :: acc in
           if n / 10 =? 0 then acc' else dec_digits f (n / 10) acc'
  end.
Definition fresh_id (n : N) : bytes := 35 :: dec_digits 40 n [].

Fixpoint upd_nth {A} (i : nat) (f : A -> A) (l : list A) : list A :=
  match l, i with
  | [], _ => []
  | a :: l', O => f a :: l'
  | a :: l', S i' => a :: upd_nth i' f l'
  end.

(* sorting descriptors by digest (compareDescriptor) *)
Fixpoint dinsert (a : desc) (l : list desc) : list desc :=
  match l with
  | [] => [a]
  | b :: l' => if bleb (d_digest a) (d_digest b) then a :: l else b :: dinsert a l'
  end.
Fixpoint dsort (l : list desc) : list desc :=
  match l with
  | [] => []
  | a :: l' => dinsert a (dsort l')
  end.

Definition slice (data : bytes) (o0 o1 : Z) : bytes :=
  firstn (Z.to_nat (o1 - o0)) (skipn (Z.to_nat o0) data).

Section Mem.
  Variable hash : bytes -> bytes.
  Variable valid_digest : bytes -> bool.
  Variable valid_repo : bytes -> bool.
  Variable valid_tag : bytes -> bool.
  Variable decode_image : bytes -> option image_manifest.
  Variable decode_index : bytes -> option index_manifest.
  Variable cfg : config.

  Definition blob_desc (b : blob) : desc :=
    {| d_media := b_media b; d_digest := hash (b_data b); d_size := blen (b_data b); d_artifact := [] |}.

  Definition get_repo (st : state) (r : bytes) : option repo := alookup r (repos st).
  Definition set_repo (st : state) (r : bytes) (rp : repo) : state :=
    {| repos := aset r rp (repos st); bufs := bufs st; next_id := next_id st |}.

  (* Registry.repo / blobForDigest / manifestForDigest *)
  Definition blob_for (st : state) (r d : bytes) : R err blob :=
    match get_repo st r with
    | None => Err e_name_unknown
    | Some rp => match alookup d (blobs rp) with
                 | None => Err e_blob_unknown
                 | Some b => Ok b
                 end
    end.
  Definition manifest_for (st : state) (r d : bytes) : R err blob :=
    match get_repo st r with
    | None => Err e_name_unknown
    | Some rp => match alookup d (manifests rp) with
                 | None => Err e_manifest_unknown
                 | Some b => Ok b
                 end
    end.

  (* Registry.makeRepo *)
  Definition make_repo (st : state) (r : bytes) : option state :=
    if valid_repo r then
      Some (match get_repo st r with
            | Some _ => st
            | None => set_repo st r empty_repo
            end)
    else None.


  (* in-place updates of one repository's maps *)
  Definition upd_repo (st : state) (r : bytes) (f : repo -> repo) : state :=
    match get_repo st r with
    | Some rp => set_repo st r (f rp)
    | None => st
    end.
  Definition rp_set_blob (d : bytes) (b : blob) (rp : repo) : repo :=
    {| tags := tags rp; manifests := manifests rp; blobs := aset d b (blobs rp); uploads := uploads rp |}.
  Definition rp_del_blob (d : bytes) (rp : repo) : repo :=
    {| tags := tags rp; manifests := manifests rp; blobs := adel d (blobs rp); uploads := uploads rp |}.
  Definition rp_set_manifest (d : bytes) (b : blob) (rp : repo) : repo :=
    {| tags := tags rp; manifests := aset d b (manifests rp); blobs := blobs rp; uploads := uploads rp |}.
  Definition rp_del_manifest (d : bytes) (rp : repo) : repo :=
    {| tags := tags rp; manifests := adel d (manifests rp); blobs := blobs rp; uploads := uploads rp |}.
  Definition rp_set_tag (t : bytes) (de : desc) (rp : repo) : repo :=
    {| tags := aset t de (tags rp); manifests := manifests rp; blobs := blobs rp; uploads := uploads rp |}.
  Definition rp_del_tag (t : bytes) (rp : repo) : repo :=
    {| tags := adel t (tags rp); manifests := manifests rp; blobs := blobs rp; uploads := uploads rp |}.
  Definition rp_set_upload (id : bytes) (i : N) (rp : repo) : repo :=
    {| tags := tags rp; manifests := manifests rp; blobs := blobs rp; uploads := aset id i (uploads rp) |}.

  (* views of the store *)
  Definition iblob (st : state) (r d : bytes) : option blob :=
    match get_repo st r with Some rp => alookup d (blobs rp) | None => None end.
  Definition iman (st : state) (r d : bytes) : option blob :=
    match get_repo st r with Some rp => alookup d (manifests rp) | None => None end.
  Definition itag (st : state) (r t : bytes) : option desc :=
    match get_repo st r with Some rp => alookup t (tags rp) | None => None end.

  (* CheckDescriptor(desc, data) *)
  Definition check_descriptor (de : desc) (data : option bytes) : option err :=
    if negb (valid_digest (d_digest de)) then Some (E DIGEST_INVALID (s "invalid digest"))
    else
      match (match data with
             | Some dt =>
                 if negb (beqb (hash dt) (d_digest de)) then Some (E DIGEST_INVALID (s "digest mismatch"))
                 else if negb (d_size de =? blen dt)%Z then Some (E SIZE_INVALID (s "size mismatch"))
                 else None
             | None =>
                 if (d_size de =? 0)%Z && negb (beqb (d_digest de) EMPTY_HASH)
                 then Some (e_plain (s "zero sized content with mismatching digest")) else None
             end) with
      | Some e => Some e
      | None => match d_media de with
                | [] => Some (e_plain (s "no media type in descriptor"))
                | _ => None
                end
      end.

  (* imageDescIter / indexDescIter: the references in iteration order *)
  Definition image_refs (m : image_manifest) : list (refkind * desc) :=
    map (pair KBlob) (im_layers m) ++ [(KBlob, im_config m)]
    ++ match im_subject m with Some sd => [(KSubject, sd)] | None => [] end.
  Definition index_refs (m : index_manifest) : list (refkind * desc) :=
    map (pair KManifest) (ix_manifests m)
    ++ match ix_subject m with Some sd => [(KSubject, sd)] | None => [] end.

  (* manifestReferences: None = JSON unmarshal error *)
  Definition manifest_refs (media data : bytes) : option (list (refkind * desc)) :=
    if beqb media MT_IMAGE then option_map image_refs (decode_image data)
    else if beqb media MT_INDEX then option_map index_refs (decode_index data)
    else Some [].

  (* the loop of checkManifest: Some subject on success, None on the first failure *)
  Fixpoint check_refs (rp : repo) (refs : list (refkind * desc)) (subject : bytes) : option bytes :=
    match refs with
    | [] => Some subject
    | (k, de) :: rest =>
        match check_descriptor de None with
        | Some _ => None
        | None =>
            match k with
            | KBlob => match alookup (d_digest de) (blobs rp) with
                       | None => None
                       | Some _ => check_refs rp rest subject
                       end
            | KManifest => match alookup (d_digest de) (manifests rp) with
                           | None => None
                           | Some _ => check_refs rp rest subject
                           end
            | KSubject => check_refs rp rest (d_digest de)
            end
        end
    end.

  Definition check_manifest (rp : repo) (media data : bytes) : option bytes :=
    match manifest_refs media data with
    | None => None
    | Some refs => check_refs rp refs []
    end.

  (* refersTo: does anything reachable from [refs] through stored manifests name [d]?
     Fuelled on the nesting depth. *)
  Fixpoint refers_to (fuel : nat) (rp : repo) (refs : list (refkind * desc)) (d : bytes) : R err bool :=
    match fuel with
    | O => OutOfFuel
    | S f =>
        (fix go (refs : list (refkind * desc)) : R err bool :=
           match refs with
           | [] => Ok false
           | (k, de) :: rest =>
               if beqb (d_digest de) d then Ok true
               else
                 match k with
                 | KBlob => go rest
                 | KManifest | KSubject =>
                     match alookup (d_digest de) (manifests rp) with
                     | None => go rest
                     | Some b =>
                         match manifest_refs (b_media b) (b_data b) with
                         | None => Err (e_plain (s "cannot unmarshal"))
                         | Some rs =>
                             match refers_to f rp rs d with
                             | Ok true => Ok true
                             | Ok false => go rest
                             | other => other
                             end
                         end
                     end
                 end
           end) refs
    end.

  (* repoTagIter *)
  Definition tag_refs (rp : repo) : list (refkind * desc) :=
    map (fun kv => (KManifest, snd kv)) (tags rp).

  Definition tagged_refers_to (rp : repo) (d : bytes) : R err bool :=
    refers_to (S (length (manifests rp))) rp (tag_refs rp) d.

  Definition new_buffer (r id : bytes) (off : Z) : buffer :=
    {| u_repo := r; u_id := id; u_buf := []; u_check := off; u_committed := false;
       u_desc := zero_desc; u_err := None |}.

  Definition with_buf (st : state) (i : nat) (f : buffer -> buffer) : state :=
    {| repos := repos st; bufs := upd_nth i f (bufs st); next_id := next_id st |}.

  Definition no_writer : err := e_plain (s "no such writer").

  Definition octet_desc (d : bytes) (n : Z) : desc :=
    {| d_media := MT_OCTET; d_digest := d; d_size := n; d_artifact := [] |}.

  Definition step (st : state) (o : op) : state * result :=
    match o with
    | GetBlob r d =>
        (st, do b <- blob_for st r d; Ok (RRead (blob_desc b) (b_data b)))
    | GetBlobRange r d o0 o1 =>
        (st, do b <- blob_for st r d;
             let n := blen (b_data b) in
             let o1' := if (o1 <? 0)%Z || (o1 >? n)%Z then n else o1 in
             if (o0 <? 0)%Z || (o0 >? o1')%Z then Err (e_plain (s "invalid range"))
             else Ok (RRead (blob_desc b) (slice (b_data b) o0 o1')))
    | GetManifest r d =>
        (st, do b <- manifest_for st r d; Ok (RRead (blob_desc b) (b_data b)))
    | GetTag r t =>
        (st, match get_repo st r with
             | None => Err e_name_unknown
             | Some rp => match alookup t (tags rp) with
                          | None => Err e_manifest_unknown
                          | Some de => do b <- manifest_for st r (d_digest de);
                                       Ok (RRead (blob_desc b) (b_data b))
                          end
             end)
    | ResolveTag r t =>
        (st, match get_repo st r with
             | None => Err e_name_unknown
             | Some rp => match alookup t (tags rp) with
                          | None => Err e_manifest_unknown
                          | Some de => Ok (RDesc de)
                          end
             end)
    | ResolveBlob r d => (st, do b <- blob_for st r d; Ok (RDesc (blob_desc b)))
    | ResolveManifest r d => (st, do b <- manifest_for st r d; Ok (RDesc (blob_desc b)))
    | PushBlob r de content =>
        match check_descriptor de (Some content) with
        | Some e => (st, Err e)
        | None =>
            match make_repo st r with
            | None => (st, Err e_name_invalid)
            | Some st1 =>
                (upd_repo st1 r (rp_set_blob (d_digest de) {| b_media := d_media de; b_data := content; b_subject := [] |}),
                 Ok (RDesc de))
            end
        end
    | PushBlobChunked r hint | PushBlobChunkedResume r _ _ hint =>
        let id := match o with PushBlobChunkedResume _ id _ _ => id | _ => [] end in
        let off := match o with PushBlobChunkedResume _ _ off _ => off | _ => 0%Z end in
        match make_repo st r with
        | None => (st, Err e_name_invalid)
        | Some st1 =>
            match get_repo st1 r with
            | None => (st1, Err e_name_invalid)   (* unreachable *)
            | Some rp =>
                match alookup id (uploads rp) with
                | Some i =>
                    (with_buf st1 (N.to_nat i) (fun b =>
                       {| u_repo := u_repo b; u_id := u_id b; u_buf := u_buf b; u_check := off;
                          u_committed := u_committed b; u_desc := u_desc b; u_err := u_err b |}),
                     Ok (RWriter i))
                | None =>
                    let id' := match id with [] => fresh_id (next_id st1) | _ => id end in
                    let i := N.of_nat (length (bufs st1)) in
                    ({| repos := aset r (rp_set_upload id' i rp) (repos st1);
                        bufs := bufs st1 ++ [new_buffer r id' off];
                        next_id := match id with [] => N.succ (next_id st1) | _ => next_id st1 end |},
                     Ok (RWriter i))
                end
            end
        end
    | MountBlob from to d =>
        match make_repo st to with
        | None => (st, Err e_name_invalid)
        | Some st1 =>
            match blob_for st1 from d with
            | Ok b =>
                (upd_repo st1 to (rp_set_blob d b), Ok (RDesc (blob_desc b)))
            | Err e => (st1, Err e)
            | Panic => (st1, Panic)
            | OutOfFuel => (st1, OutOfFuel)
            end
        end
    | PushManifest r t data media =>
        match make_repo st r with
        | None => (st, Err e_name_invalid)
        | Some st1 =>
            match get_repo st1 r with
            | None => (st1, Err e_name_invalid)   (* unreachable *)
            | Some rp =>
                let dig := hash data in
                let de := {| d_media := media; d_digest := dig; d_size := blen data; d_artifact := [] |} in
                let store (_ : unit) :=
                  (* immutable tags: a stored manifest keeps the media type it was stored with *)
                  if immutable_tags cfg
                     && match alookup dig (manifests rp) with
                        | Some cur => negb (beqb (b_media cur) media)
                        | None => false
                        end
                  then (st1, Err (E DENIED (s "mismatched media type")))
                  else
                  match check_descriptor de (Some data) with
                  | Some e => (st1, Err (e_plain (s "invalid descriptor")))
                  | None =>
                      match check_manifest rp media data with
                      | None => (st1, Err (e_plain (s "invalid manifest")))
                      | Some subject =>
                          (upd_repo st1 r (fun rp =>
                             let rp1 := rp_set_manifest dig {| b_media := media; b_data := data; b_subject := subject |} rp in
                             match t with [] => rp1 | _ => rp_set_tag t de rp1 end),
                           Ok (RDesc de))
                      end
                  end in
                match t with
                | [] => store tt
                | _ =>
                    if negb (valid_tag t) then (st1, Err (e_plain (s "invalid tag")))
                    else if immutable_tags cfg then
                      match alookup t (tags rp) with
                      | Some cur =>
                          if beqb dig (d_digest cur) then
                            if beqb (d_media cur) media then (st1, Ok (RDesc cur))
                            else (st1, Err (E DENIED (s "mismatched media type")))
                          else (st1, Err (E DENIED (s "cannot overwrite tag")))
                      | None => store tt
                      end
                    else store tt
                end
            end
        end
    | DeleteBlob r d =>
        match blob_for st r d with
        | Ok _ =>
            match get_repo st r with
            | None => (st, Ok RUnit)
            | Some rp =>
                let del (_ : unit) :=
                  (upd_repo st r (rp_del_blob d), Ok RUnit) in
                if immutable_tags cfg then
                  match tagged_refers_to rp d with
                  | Ok true => (st, Err (E DENIED (s "deletion of tagged blob not permitted")))
                  | Ok false => del tt
                  | Err e => (st, Err e)
                  | Panic => (st, Panic)
                  | OutOfFuel => (st, OutOfFuel)
                  end
                else del tt
            end
        | Err e => (st, Err e)
        | Panic => (st, Panic)
        | OutOfFuel => (st, OutOfFuel)
        end
    | DeleteManifest r d =>
        match manifest_for st r d with
        | Ok _ =>
            match get_repo st r with
            | None => (st, Ok RUnit)
            | Some rp =>
                let del (_ : unit) :=
                  (upd_repo st r (rp_del_manifest d), Ok RUnit) in
                if immutable_tags cfg then
                  match tagged_refers_to rp d with
                  | Ok true => (st, Err (E DENIED (s "deletion of tagged manifest not permitted")))
                  | Ok false => del tt
                  | Err e => (st, Err e)
                  | Panic => (st, Panic)
                  | OutOfFuel => (st, OutOfFuel)
                  end
                else del tt
            end
        | Err e => (st, Err e)
        | Panic => (st, Panic)
        | OutOfFuel => (st, OutOfFuel)
        end
    | DeleteTag r t =>
        match get_repo st r with
        | None => (st, Err e_name_unknown)
        | Some rp =>
            match alookup t (tags rp) with
            | None => (st, Err e_manifest_unknown)
            | Some _ =>
                if immutable_tags cfg then (st, Err (E DENIED (s "tag deletion not permitted")))
                else (upd_repo st r (rp_del_tag t), Ok RUnit)
            end
        end
    | Repositories start => (st, Ok (RList (list_after start (akeys (repos st))) None))
    | Tags r start =>
        (st, match get_repo st r with
             | None => Ok (RList [] (Some e_name_unknown))
             | Some rp => Ok (RList (list_after start (akeys (tags rp))) None)
             end)
    | Referrers r d art =>
        (st, match get_repo st r with
             | None => Ok (RDescs [] (Some e_name_unknown))
             | Some rp =>
                 let ms := filter (fun kv => beqb (b_subject (snd kv)) d) (manifests rp) in
                 (* slices.SortFunc(referrers, compareDescriptor) *)
                 Ok (RDescs (dsort (map (fun kv => blob_desc (snd kv)) ms)) None)
             end)
    | WWrite w data =>
        match nth_error (bufs st) (N.to_nat w) with
        | None => (st, Err no_writer)
        | Some b =>
            if negb (u_check b =? -1)%Z && negb (blen (u_buf b) =? u_check b)%Z
            then (st, Err (E RANGE_INVALID (s "invalid offset in resumed upload")))
            else (with_buf st (N.to_nat w) (fun b =>
                    {| u_repo := u_repo b; u_id := u_id b; u_buf := u_buf b ++ data; u_check := -1;
                       u_committed := u_committed b; u_desc := u_desc b; u_err := u_err b |}),
                  Ok (RN (blen data)))
        end
    | WClose w =>
        (st, match nth_error (bufs st) (N.to_nat w) with None => Err no_writer | Some _ => Ok RUnit end)
    | WSize w =>
        (st, match nth_error (bufs st) (N.to_nat w) with None => Err no_writer | Some b => Ok (RN (blen (u_buf b))) end)
    | WChunkSize w =>
        (st, match nth_error (bufs st) (N.to_nat w) with None => Err no_writer | Some b => Ok (RN 8192) end)
    | WID w =>
        (st, match nth_error (bufs st) (N.to_nat w) with None => Err no_writer | Some b => Ok (RStr (u_id b)) end)
    | WCancel w =>
        match nth_error (bufs st) (N.to_nat w) with
        | None => (st, Err no_writer)
        | Some _ =>
            (with_buf st (N.to_nat w) (fun b =>
               {| u_repo := u_repo b; u_id := u_id b; u_buf := u_buf b; u_check := u_check b;
                  u_committed := u_committed b; u_desc := u_desc b;
                  u_err := Some (e_plain (s "upload canceled")) |}), Ok RUnit)
        end
    | WCommit w d =>
        match nth_error (bufs st) (N.to_nat w) with
        | None => (st, Err no_writer)
        | Some b =>
            match u_err b with
            | Some e => (st, Err e)
            | None =>
                if beqb (hash (u_buf b)) d then
                  let n := blen (u_buf b) in
                  let st1 := with_buf st (N.to_nat w) (fun b =>
                     {| u_repo := u_repo b; u_id := u_id b; u_buf := u_buf b; u_check := u_check b;
                        u_committed := true; u_desc := octet_desc d n; u_err := None |}) in
                  (* the commit callback registered by PushBlobChunkedResume *)
                  let st2 := upd_repo st1 (u_repo b)
                               (rp_set_blob d {| b_media := MT_OCTET; b_data := u_buf b; b_subject := [] |}) in
                  (st2, Ok (RDesc (octet_desc d n)))
                else
                  let e := E DIGEST_INVALID (s "digest mismatch") in
                  (with_buf st (N.to_nat w) (fun b =>
                     {| u_repo := u_repo b; u_id := u_id b; u_buf := u_buf b; u_check := u_check b;
                        u_committed := u_committed b; u_desc := u_desc b; u_err := Some e |}), Err e)
            end
        end
    end.
End Mem.
