(* Go's path.Clean and path.Join (standard library, package path), needed only to state
   what ocifilter.Sub did before work/fixes/sub-confinement.msg (Model/FilterLegacy.v).
   Clean is modelled by what its byte loop computes element by element: empty and "."
   elements are dropped, ".." removes the previous kept element when there is one that is
   not itself a kept "..", is dropped at the root, and is kept otherwise.  The harness of
   C13 compares [path_join] with the real path.Join on every name it uses. *)
From Coq Require Import String.
From OCI Require Export Base.Outcome.

Definition is_empty (a : bytes) : bool := match a with [] => true | _ => false end.

Definition c_slash : N := 47.
Definition c_dot : N := 46.

(* strings.Split(a, "/") *)
Fixpoint split_slash (a : bytes) : list bytes :=
  match a with
  | [] => [[]]
  | c :: a' =>
      if N.eqb c c_slash then [] :: split_slash a'
      else match split_slash a' with
           | e :: r => (c :: e) :: r
           | [] => [[c]]
           end
  end.

(* strings.Join(l, "/") *)
Definition join_slash (l : list bytes) : bytes :=
  match l with
  | [] => []
  | a :: r => a ++ concat (map (fun e => c_slash :: e) r)
  end.

(* the kept elements, most recent first *)
Fixpoint clean_elems (rooted : bool) (kept : list bytes) (elems : list bytes) : list bytes :=
  match elems with
  | [] => rev kept
  | e :: elems' =>
      if is_empty e || beqb e [c_dot] then clean_elems rooted kept elems'
      else if beqb e [c_dot; c_dot] then
        match kept with
        | top :: rest =>
            if beqb top [c_dot; c_dot]
            then clean_elems rooted ([c_dot; c_dot] :: kept) elems'    (* only when not rooted *)
            else clean_elems rooted rest elems'                        (* out.w > dotdot: back up *)
        | [] =>
            if rooted then clean_elems rooted [] elems'
            else clean_elems rooted [[c_dot; c_dot]] elems'
        end
      else clean_elems rooted (e :: kept) elems'
  end.

Definition path_clean (path : bytes) : bytes :=
  match path with
  | [] => [c_dot]
  | c :: _ =>
      let rooted := N.eqb c c_slash in
      let out := join_slash (clean_elems rooted [] (split_slash path)) in
      if rooted then c_slash :: out
      else match out with [] => [c_dot] | _ => out end
  end.

(* the loop of path.Join that builds the string handed to Clean *)
Fixpoint join_buf (buf : bytes) (elem : list bytes) : bytes :=
  match elem with
  | [] => buf
  | e :: elem' =>
      if negb (is_empty buf) || negb (is_empty e)
      then join_buf ((if is_empty buf then buf else buf ++ [c_slash]) ++ e) elem'
      else join_buf buf elem'
  end.

Definition path_join (elem : list bytes) : bytes :=
  if forallb is_empty elem then [] else path_clean (join_buf [] elem).
