(* The three iterator methods of ocifilter/select.go (Repositories, Tags, Referrers) as Go
   evaluates them (property C12): a method call returns a Seq - a function of the caller's
   yield callback - and WHAT RUNS WHEN is part of the model:

     - the code of the method body runs when the method is called: the policy is asked, and
       for Tags / Referrers the wrapped registry's method is called (return r.r.Tags(...));
     - the code of a function literal runs when the returned Seq is iterated, and again on
       every further iteration: for Repositories that is where the wrapped registry's
       Repositories is called and iterated;
     - what the caller's callback answers (more / stop) is the caller's business: a caller
       may stop at any yield, may stop when it is handed an error, or may CARRY ON after it
       has been handed an error ("a non-nil error means that the item is the last" is a
       promise of the iterator, not a duty of the caller), and may iterate the Seq it was
       given any number of times, or never.

   Items are byte strings: a tag, a repository name, or (Referrers) the harness's
   one-to-one rendering of a descriptor; the wrapper code never looks inside an item of Tags
   or Referrers.  The zero value handed over next to an error (ErrorSeq: *new(T)) is the
   empty string. *)
From Coq Require Import String.
From OCI Require Export Model.FilterStack.

(* ---------- the caller of a returned Seq ---------- *)

(* the callback's answer to its i-th call (from 0): [c_answers] position i, [c_default]
   beyond; when [c_on_err] is set, it is the answer to every call that carries an error *)
Record cons := Cons { c_answers : list bool; c_default : bool; c_on_err : option bool }.

Definition answer (c : cons) (i : nat) (y : yld) : bool :=
  match c_on_err c, snd y with
  | Some b, Some _ => b
  | _, _ => nth i (c_answers c) (c_default c)
  end.

(* what is threaded through one iteration: the yields the caller received, the number of
   yields the innermost registry's iterator made, the calls made on the innermost registry *)
Definition istate := (list yld * nat * list op)%type.
Definition i_got (s : istate) : list yld := fst (fst s).

Definition consumer_fn (c : cons) : yfun istate :=
  fun y s => let '(got, n, cs) := s in ((got ++ [y], n, cs), answer c (length got) y).
Definition bump : istate -> istate := fun s => let '(got, n, cs) := s in (got, S n, cs).
Definition note (cs' : list op) : istate -> istate := fun s => let '(got, n, cs) := s in (got, n, cs ++ cs').

(* ---------- a method call: what it does at once, and the Seq it returns ---------- *)

(* the calls made on the innermost registry while the method body runs, and the Seq *)
Definition icall := (list op * seqf istate)%type.

(* the innermost (recording) registry: the call is made and recorded in the method body; the
   Seq hands [evs] to the callback for as long as it answers true, every time it is iterated *)
Definition ibottom (evs : list yld) (o : op) : icall := ([o], raw_seqf bump evs).

(*  func (r *accessCheckerRegistry) Tags(ctx, repo, startAfter) Seq[string] {
        if err := r.check(repo, AccessList); err != nil { return ErrorSeq[string](err) }
        return r.r.Tags(ctx, repo, startAfter)
    }
    Referrers: the same with ErrorSeq[Descriptor].
    func (r *accessCheckerRegistry) Repositories(ctx, startAfter) Seq[string] {
        if !r.listAll { if err := r.check("*", AccessList); err != nil { return ErrorSeq[string](err) } }
        return func(yield) { r.r.Repositories(ctx, startAfter)(func(repo, err) bool { ... }) }
    }
   [inner] is the field r: the wrapper underneath or the innermost registry. *)
Definition iover (l : layer) (inner : op -> icall) (o : op) : icall :=
  match o with
  | Tags repo _ | Referrers repo _ _ =>
      match l_check l repo AccessList with
      | Some err => ([], error_seqf err)
      | None => inner o
      end
  | Repositories _ =>
      match (if l_listAll l then None else l_check l star AccessList) with
      | Some err => ([], error_seqf err)
      | None =>
          ([], fun yield s =>
                 (* runs on every iteration: r.r.Repositories(ctx, startAfter) is called,
                    then the Seq it returned is iterated with the function literal *)
                 let ic := inner o in
                 repos_literal (l_check l) (snd ic) yield (note (fst ic) s))
      end
  | _ => ([], fun _ s => s)   (* not an iterator method: not used *)
  end.

(* wrappers applied to each other, outermost first *)
Fixpoint istack (ls : list layer) (evs : list yld) : op -> icall :=
  match ls with
  | [] => ibottom evs
  | l :: ls' => iover l (istack ls' evs)
  end.

(* one iteration by caller [c]: what it received, the innermost yields made, the calls made
   on the innermost registry during it *)
Definition iterate (sq : seqf istate) (c : cons) : istate := sq (consumer_fn c) ([], 0%nat, []).

(* a call of an iterator method through the stack and one iteration of the returned Seq per
   caller of [cs], in order: the calls made by the method body, then per iteration *)
Definition irun (ls : list layer) (evs : list yld) (o : op) (cs : list cons) : list op * list istate :=
  let ic := istack ls evs o in (fst ic, map (iterate (snd ic)) cs).

Definition is_iter_op (o : op) : bool :=
  match o with Tags _ _ | Referrers _ _ _ | Repositories _ => true | _ => false end.
