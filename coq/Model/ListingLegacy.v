(* ocifilter/sub.go Repositories as it was before the repair 5c7e867 ("Sub.Repositories
   prefixes the start point"): the start point went to the wrapped registry unchanged.
   Kept with its refutation (Props/C05.v, C05_sub_strip_legacy_refuted) so that the witness
   in corpus/C05/sub_start_point.json keeps its meaning; nothing else depends on this file. *)
From Coq Require Import String.
From OCI Require Export Model.Listing.

Definition legacy_sub_Repositories (prefix : bytes) (backend : bytes -> Seq err bytes)
           (startAfter : bytes) : Seq err bytes :=
  let p := prefix ++ slash in
  fun S y st =>
    backend startAfter S
      (fun v st =>
         match v with
         | inr e => (fst (y (inr e) st), false)
         | inl repo =>
             match cut_prefix p repo with
             | Some r => y (inl r) st
             | None => (st, true)
             end
         end) st.
