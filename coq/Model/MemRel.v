(* C02: when does an answer of the in-memory registry count as the answer the reference
   registry predicts.  Equality on the projected observables (success / failure, OCI code,
   descriptor, bytes, listing) with the two allowances the property makes:
   * where the reference registry rejects without a documented code ([ENone]) any error is
     accepted;
   * on a repository that holds no content the implementation may answer "unknown
     repository" or the empty / X_UNKNOWN answer, and content-free repositories may or may
     not show in the catalog listing. *)
From Coq Require Import String.
From OCI Require Export Model.MemSpec.

Definition code_ok (c cs : ecode) : bool :=
  match cs with ENone => true | _ => ecode_eqb c cs end.

Definition opt_code_eqb (a b : option err) : bool :=
  option_eqb ecode_eqb (option_map e_code a) (option_map e_code b).

Definition res_same (a b : res) : bool :=
  match a, b with
  | RDesc x, RDesc y => desc_eqb x y
  | RRead x dx, RRead y dy => desc_eqb x y && beqb dx dy
  | RList l e, RList l' e' => list_eqb beqb l l' && opt_code_eqb e e'
  | RDescs l e, RDescs l' e' => list_eqb desc_eqb l l' && opt_code_eqb e e'
  | RWriter x, RWriter y => N.eqb x y
  | RN x, RN y => Z.eqb x y
  | RStr x, RStr y => beqb x y
  | RUnit, RUnit => true
  | _, _ => false
  end.

(* implementation result [r] against reference result [q] *)
Definition result_match (r q : result) : bool :=
  match r, q with
  | Ok a, Ok b => res_same a b
  | Err e, Err e' => code_ok (e_code e) (e_code e')
  | Panic, Panic => true
  | _, _ => false
  end.

Definition slack (l : list event) (o : op) (r : result) : bool :=
  match op_repo o with
  | Some rn => negb (has_content l rn) && empty_answer o r
  | None => false
  end.

(* [l] is the reference registry's log before the operation *)
Definition res_ok (l : list event) (o : op) (r q : result) : bool :=
  match o, r, q with
  | Repositories _, Ok (RList lo None), Ok (RList ls None) =>
      ssortedb lo && list_eqb beqb (filter (has_content l) lo) ls
  | _, _, _ => result_match r q || slack l o r
  end.

Definition definite (r : result) : Prop := r <> OutOfFuel.

(* Digests cannot form a cycle among the manifests satisfying [P]: there is a rank on
   digests under which everything such a manifest references ranks strictly below the
   manifest's own digest.  With [P] = "was pushed in this history" this says that the pushed
   manifests do not contain, directly or through one another, their own digests - true of
   every history anyone can produce short of constructing a sha256 cycle. *)
Definition acyclic_on (P : bytes -> Prop) (hash : bytes -> bytes)
           (decode_image : bytes -> option image_manifest)
           (decode_index : bytes -> option index_manifest) : Prop :=
  exists rk : bytes -> nat,
    forall media data k c, P data -> In (k, c) (children decode_image decode_index media data) ->
                           (rk c < rk (hash data))%nat.

(* the idealised-hash version: no digest cycle among any byte strings at all *)
Definition acyclic (hash : bytes -> bytes)
           (decode_image : bytes -> option image_manifest)
           (decode_index : bytes -> option index_manifest) : Prop :=
  acyclic_on (fun _ => True) hash decode_image decode_index.

(* [data] is the content of some PushManifest of the history *)
Definition pushed_manifest (h : list op) (data : bytes) : Prop :=
  exists r t media, In (PushManifest r t data media) h.

(* the two operations whose answer involves a fuelled search *)
Definition fuelled (o : op) : bool :=
  match o with DeleteBlob _ _ | DeleteManifest _ _ => true | _ => false end.

(* Every answer along a history is one the reference registry accepts: the implementation
   [mstep] from [st] and the reference registry [rstep] from [sp] run the same operations. *)
Section Hist.
  Variable mstep : registry state.
  Variable rstep : registry sstate.

  Fixpoint hist_ok (st : state) (sp : sstate) (h : list op) : Prop :=
    match h with
    | [] => True
    | o :: h' =>
        res_ok (slog sp) o (snd (mstep st o)) (snd (rstep sp o)) = true /\
        hist_ok (fst (mstep st o)) (fst (rstep sp o)) h'
    end.

  (* the same judgement, given up at the first search that runs out of fuel on either side *)
  Fixpoint hist_ok_upto_fuel (st : state) (sp : sstate) (h : list op) : Prop :=
    match h with
    | [] => True
    | o :: h' =>
        snd (mstep st o) = OutOfFuel \/ snd (rstep sp o) = OutOfFuel \/
        (res_ok (slog sp) o (snd (mstep st o)) (snd (rstep sp o)) = true /\
         hist_ok_upto_fuel (fst (mstep st o)) (fst (rstep sp o)) h')
    end.
End Hist.
