(* Specification side of C06 for backend readers that do not simply deliver their content:
   a BlobReader whose Read fails part-way (after k bytes: a digest-verifying or network-backed
   reader that finds out late) and a BlobReader whose Close returns an error.

   The model of the handlers (Model/Server.v) reads a reader through [VRead d data]: [data] is
   what io.Copy reads from it.  For a reader that fails after k bytes that is the k bytes it
   delivered; what it had promised beyond them, the error its Read returned then and the error
   of its Close are written beside the trace, one [rstream] per reader obtained, in the order
   the readers were obtained.

   What the property asks of such an exchange (its clauses on failures and on Content-Length):
   a handler that streams a reader has written the success status and the Content-Length of the
   promised content before the first byte is read, so a failure that shows later can no longer
   be reported as a failure - no error document may follow, and what was sent must still be the
   beginning of what was promised (so that the receiver sees a short body, not a body of the
   right length with something else at its end). *)
From Coq Require Import String.
From OCI Require Export Base.Outcome Model.Server Model.ServerSpec.

Record rstream := mkrs {
  rs_rest : bytes;                (* promised but not delivered: what was still to come when Read failed *)
  rs_read_err : option gerr;      (* the error Read returned in place of io.EOF *)
  rs_close_err : option gerr      (* the error Close returned *)
}.

(* the bytes a reader obtained by this call delivered *)
Definition reader_data (e : ev) : option bytes :=
  if reader_open e then
    match e with
    | ECall _ (Ok v) => Some (data_of v)
    | _ => None
    end
  else None.

(* the content the last reader obtained in this exchange promised: what it delivered and what
   it still had to deliver ([rs] runs along the readers of the trace; a reader without an
   entry is a plain one) *)
Fixpoint promised (tr : list ev) (rs : list rstream) (acc : option bytes) : option bytes :=
  match tr with
  | [] => acc
  | e :: t =>
      match reader_data e with
      | Some data =>
          match rs with
          | r :: rs' => promised t rs' (Some (data ++ rs_rest r))
          | [] => promised t [] (Some data)
          end
      | None => promised t rs acc
      end
  end.

(* once a success status is out, the response is not an error document and its body is the
   beginning of the promised content *)
Definition stream_ok (tr : list ev) (rs : list rstream) (resp : hresp) : bool :=
  match promised tr rs None with
  | Some full =>
      implb' ((200 <=? p_status resp) && (p_status resp <? 300))%Z
             (negb (is_failure resp) && has_prefix (p_body resp) full)
  | None => true
  end.

(* the errors of the readers are values ociregistry.WriteError could write (the conventions of
   ociregistry.Interface, as for every other error of the backend: [wb_trace]) *)
Definition wb_streams (rs : list rstream) : bool :=
  forallb (fun r => match rs_read_err r with Some e => servable e | None => true end
                    && match rs_close_err r with Some e => servable e | None => true end) rs.

(* the list describes the readers of the trace: one entry each *)
Definition streams_fit (tr : list ev) (rs : list rstream) : bool :=
  Nat.eqb (List.length rs) (List.length (filter reader_open tr)).
