(* Executable companions of Model/Conc.v, used on recorded histories of the real code:
     - [exec]: replay a trace with linearisation points on the sectioned model (a scheduler:
       it produces a genuine execution of [cstep], Proofs/ConcRun.v);
     - [search]: brute-force search for linearisation points of a history (Wing-Gong style).
       It is not trusted: its answer is re-validated by [aug_ok] (Model/Conc.v), the
       specification of a valid linearisation. *)
From Coq Require Import String.
From OCI Require Export Model.Conc.

Section Run.
  Variable hash : bytes -> bytes.
  Variable valid_digest : bytes -> bool.
  Variable valid_repo : bytes -> bool.
  Variable valid_tag : bytes -> bool.
  Variable decode_image : bytes -> option image_manifest.
  Variable decode_index : bytes -> option index_manifest.
  Variable cfg : config.
  Local Notation mstep := (mstep hash valid_digest valid_repo valid_tag decode_image decode_index cfg).
  Local Notation sec_step := (sec_step hash valid_digest valid_repo valid_tag decode_image decode_index cfg).

  Context {Resp : Type}.
  Variable cmp : Resp -> result -> bool.

  (* ------------------------------------------------------------ replay on the sectioned model *)

  (* one section of thread t *)
  Definition step_thread (c : conf) (t : nat) : option (conf * bool) :=
    match nth_error (c_threads c) t with
    | Some th =>
        match t_cur th with
        | Some (o, p) =>
            match sec_step (locked (c_threads c)) (c_mem c) p with
            | Some (m', lp, p') =>
                Some ({| c_mem := m'; c_threads := set_nth t {| t_cur := Some (o, p') |} (c_threads c) |}, lp)
            | None => None
            end
        | None => None
        end
    | None => None
    end.

  (* sections of thread t up to and including its linearisation point *)
  Fixpoint run_to_lp (fuel : nat) (c : conf) (t : nat) : option conf :=
    match fuel with
    | O => None
    | S f =>
        match step_thread c t with
        | Some (c', true) => Some c'
        | Some (c', false) => run_to_lp f c' t
        | None => None
        end
    end.

  (* the remaining sections of thread t (none of them the LP), then its return *)
  Fixpoint run_to_ret (fuel : nat) (c : conf) (t : nat) : option (conf * result) :=
    match nth_error (c_threads c) t with
    | Some th =>
        match t_cur th with
        | Some (o, PDone r) =>
            Some ({| c_mem := c_mem c; c_threads := set_nth t {| t_cur := None |} (c_threads c) |}, r)
        | Some _ =>
            match fuel with
            | O => None
            | S f =>
                match step_thread c t with
                | Some (c', false) => run_to_ret f c' t
                | _ => None
                end
            end
        | None => None
        end
    | None => None
    end.

  (* replay: the model's own trace (with the model's results) when every step is enabled and
     every observed response is the model's *)
  Fixpoint exec (c : conf) (tr : list (aev Resp)) : option (conf * list (aev result)) :=
    match tr with
    | [] => Some (c, [])
    | AInv t o :: tr' =>
        match nth_error (c_threads c) t with
        | Some th =>
            match t_cur th with
            | None =>
                match exec {| c_mem := c_mem c;
                              c_threads := set_nth t {| t_cur := Some (o, PStart o) |} (c_threads c) |} tr' with
                | Some (c', mt) => Some (c', AInv t o :: mt)
                | None => None
                end
            | Some _ => None
            end
        | None => None
        end
    | ALin t :: tr' =>
        match run_to_lp 3 c t with
        | Some c1 =>
            match exec c1 tr' with
            | Some (c', mt) => Some (c', ALin t :: mt)
            | None => None
            end
        | None => None
        end
    | ARes t r :: tr' =>
        match run_to_ret 3 c t with
        | Some (c1, r') =>
            if cmp r r' then
              match exec c1 tr' with
              | Some (c', mt) => Some (c', ARes t r' :: mt)
              | None => None
              end
            else None
        | None => None
        end
    end.

  (* ------------------------------------------------------------ histories and the search *)

  Inductive hev := HInv (t : nat) (o : op) | HRes (t : nat) (r : Resp).
  Definition ev_of (e : hev) : aev Resp :=
    match e with HInv t o => AInv t o | HRes t r => ARes t r end.

  (* insert, before the i-th event of h, linearisation points of the threads listed in the
     i-th element of w *)
  Fixpoint weave (h : list hev) (w : list (list nat)) : list (aev Resp) :=
    match h with
    | [] => []
    | e :: h' =>
        match w with
        | l :: w' => map ALin l ++ ev_of e :: weave h' w'
        | [] => ev_of e :: weave h' []
        end
    end.

  Fixpoint first_some {A B} (f : A -> option B) (l : list A) : option B :=
    match l with
    | [] => None
    | a :: l' => match f a with Some b => Some b | None => first_some f l' end
    end.

  (* Linearisation points only ever need to be placed immediately before a response.  At a
     response of a thread that is not linearised yet, try every pending thread (the
     responding one first). [acc]: threads linearised so far before the current event. *)
  Fixpoint search (fuel : nat) (a : state) (st : stmap) (pend : list nat) (acc : list nat)
           (h : list hev) : option (list (list nat)) :=
    match fuel with
    | O => None
    | S f =>
        match h with
        | [] => Some []
        | HInv t o :: h' =>
            match search f a (sset st t (TPend o)) (t :: pend) [] h' with
            | Some w => Some (rev acc :: w)
            | None => None
            end
        | HRes t r :: h' =>
            match sget st t with
            | TLin r' =>
                if cmp r r' then
                  match search f a (sset st t TIdle) (filter (fun x => negb (Nat.eqb x t)) pend) [] h' with
                  | Some w => Some (rev acc :: w)
                  | None => None
                  end
                else None
            | TPend _ =>
                first_some
                  (fun t' =>
                     match sget st t' with
                     | TPend o' =>
                         let (a', r') := mstep a o' in
                         search f a' (sset st t' (TLin r')) pend (t' :: acc) h
                     | _ => None
                     end)
                  (t :: filter (fun x => negb (Nat.eqb x t)) pend)
            | TIdle => None
            end
        end
    end.

  (* The same search with a budget of visited nodes threaded through it.  Deciding that a
     history has NO linearisation means visiting every order of the pending operations (16
     concurrent operations: 16! orders); the budget makes the answer three-valued:
     (_, Some w) a witness; (b, None) with b > 0: every order was tried, none works; (0, None):
     undecided. *)
  Fixpoint first_someB {A B} (f : A -> N -> N * option B) (l : list A) (b : N) : N * option B :=
    match l with
    | [] => (b, None)
    | x :: l' =>
        let '(b', r) := f x b in
        match r with
        | Some y => (b', Some y)
        | None => if (b' =? 0)%N then (0%N, None) else first_someB f l' b'
        end
    end.

  (* [oldest]: at a response of a pending thread try the pending operations in the order they
     were invoked (operations tend to take effect in arrival order: three commits invoked before
     a write and answered after it were all linearised before it) instead of the responding
     thread first.  Any order is sound: the witness is validated separately. *)
  Fixpoint searchB (oldest : bool) (fuel : nat) (bud : N) (a : state) (st : stmap) (pend : list nat) (acc : list nat)
           (h : list hev) : N * option (list (list nat)) :=
    match fuel with
    | O => (bud, None)
    | S f =>
        if (bud =? 0)%N then (0%N, None) else
        let bud := N.pred bud in
        match h with
        | [] => (bud, Some [])
        | HInv t o :: h' =>
            let '(b, r) := searchB oldest f bud a (sset st t (TPend o)) (t :: pend) [] h' in
            (b, option_map (cons (rev acc)) r)
        | HRes t r :: h' =>
            match sget st t with
            | TLin r' =>
                if cmp r r' then
                  let '(b, x) := searchB oldest f bud a (sset st t TIdle) (filter (fun x => negb (Nat.eqb x t)) pend) [] h' in
                  (b, option_map (cons (rev acc)) x)
                else (bud, None)
            | TPend _ =>
                first_someB
                  (fun t' b =>
                     match sget st t' with
                     | TPend o' =>
                         let (a', r') := mstep a o' in
                         searchB oldest f b a' (sset st t' (TLin r')) pend (t' :: acc) h
                     | _ => (b, None)
                     end)
                  (if oldest then rev pend else t :: filter (fun x => negb (Nat.eqb x t)) pend) bud
            | TIdle => (bud, None)
            end
        end
    end.

  (* two operations were in progress at once somewhere in the history *)
  Fixpoint overlaps (open : nat) (h : list hev) : bool :=
    match h with
    | [] => false
    | HInv _ _ :: h' => (1 <=? open)%nat || overlaps (S open) h'
    | HRes _ _ :: h' => overlaps (pred open) h'
    end.
End Run.

Arguments HInv {Resp}. Arguments HRes {Resp}.
