(* The reference registry of C02: per repository a set of blobs, a set of manifests and
   tag-to-descriptor bindings — nothing else.  It is written as far from the
   implementation's representation as an executable definition allows:

   * the store is an append-only log of events (stored / deleted / tag set / tag removed);
     a lookup is "the latest event for that key", so "found until deleted" and "a tag
     resolves to the last manifest pushed under it" are the definitions themselves;
   * there is no repository table: a repository exists exactly when it currently holds
     content, and an operation on a content-free repository answers NAME_UNKNOWN (the
     implementation may answer either that or the empty / X_UNKNOWN answer — [slack]);
   * descriptors carry the digest the content was stored under; referrers are computed by
     decoding the stored manifests when asked (no cached subject);
   * listings are "sort the live keys after the start point".

   Upload sessions (BlobWriter) are part of the Interface, so the reference registry has
   them too: the buffer record of Model/Mem.v keyed by (repository, id). *)
From Coq Require Import String.
From OCI Require Export Model.Mem.

Inductive event :=
  | EvBlob (r d : bytes) (v : option (bytes * bytes))   (* Some (media, data) stored / None deleted *)
  | EvMan (r d : bytes) (v : option (bytes * bytes))
  | EvTag (r t : bytes) (v : option desc).

Record sstate := {
  slog : list event;                      (* latest first *)
  sbufs : list buffer;
  sups : list (bytes * bytes * N);        (* (repo, id) -> index into sbufs *)
  snext : N
}.

Definition sinit : sstate := {| slog := []; sbufs := []; sups := []; snext := 0 |}.

Fixpoint sblob (l : list event) (r d : bytes) : option (bytes * bytes) :=
  match l with
  | [] => None
  | EvBlob r' d' v :: l' => if beqb r r' && beqb d d' then v else sblob l' r d
  | _ :: l' => sblob l' r d
  end.
Fixpoint sman (l : list event) (r d : bytes) : option (bytes * bytes) :=
  match l with
  | [] => None
  | EvMan r' d' v :: l' => if beqb r r' && beqb d d' then v else sman l' r d
  | _ :: l' => sman l' r d
  end.
Fixpoint stag (l : list event) (r t : bytes) : option desc :=
  match l with
  | [] => None
  | EvTag r' t' v :: l' => if beqb r r' && beqb t t' then v else stag l' r t
  | _ :: l' => stag l' r t
  end.

Fixpoint sup (l : list (bytes * bytes * N)) (r id : bytes) : option N :=
  match l with
  | [] => None
  | (r', id', i) :: l' => if beqb r r' && beqb id id' then Some i else sup l' r id
  end.

Definition is_some {A} (o : option A) : bool := match o with Some _ => true | None => false end.

Definition ev_repo (ev : event) : bytes :=
  match ev with EvBlob r _ _ | EvMan r _ _ | EvTag r _ _ => r end.
Definition ev_live (l : list event) (ev : event) : bool :=
  match ev with
  | EvBlob r d _ => is_some (sblob l r d)
  | EvMan r d _ => is_some (sman l r d)
  | EvTag r t _ => is_some (stag l r t)
  end.
(* the repository currently holds a blob, a manifest or a tag *)
Definition has_content (l : list event) (r : bytes) : bool :=
  existsb (fun ev => beqb (ev_repo ev) r && ev_live l ev) l.

(* live keys of each kind *)
Definition blob_keys (l : list event) (r : bytes) : list bytes :=
  nodup bytes_eq_dec (flat_map (fun ev => match ev with
     | EvBlob r' d _ => if beqb r r' && is_some (sblob l r d) then [d] else [] | _ => [] end) l).
Definition man_keys (l : list event) (r : bytes) : list bytes :=
  nodup bytes_eq_dec (flat_map (fun ev => match ev with
     | EvMan r' d _ => if beqb r r' && is_some (sman l r d) then [d] else [] | _ => [] end) l).
Definition tag_keys (l : list event) (r : bytes) : list bytes :=
  nodup bytes_eq_dec (flat_map (fun ev => match ev with
     | EvTag r' t _ => if beqb r r' && is_some (stag l r t) then [t] else [] | _ => [] end) l).
Definition repo_keys (l : list event) : list bytes :=
  nodup bytes_eq_dec (flat_map (fun ev => if ev_live l ev then [ev_repo ev] else []) l).

Section Spec.
  Variable hash : bytes -> bytes.
  Variable valid_digest : bytes -> bool.
  Variable valid_repo : bytes -> bool.
  Variable valid_tag : bytes -> bool.
  Variable decode_image : bytes -> option image_manifest.
  Variable decode_index : bytes -> option index_manifest.
  Variable cfg : config.

  Definition sdesc (media d data : bytes) : desc :=
    {| d_media := media; d_digest := d; d_size := blen data; d_artifact := [] |}.

  (* a descriptor inside a manifest is well-formed *)
  Definition ref_wf (de : desc) : bool :=
    valid_digest (d_digest de)
    && negb ((d_size de =? 0)%Z && negb (beqb (d_digest de) EMPTY_HASH))
    && negb (beqb (d_media de) []).

  (* an OCI image / index is acceptable when it decodes, every descriptor in it is
     well-formed, and every layer, the config and every child manifest is present;
     the subject need not be.  Other media types are opaque. *)
  Definition acceptable (l : list event) (r media data : bytes) : bool :=
    if beqb media MT_IMAGE then
      match decode_image data with
      | None => false
      | Some m =>
          forallb (fun de => ref_wf de && is_some (sblob l r (d_digest de))) (im_layers m ++ [im_config m])
          && match im_subject m with Some sd => ref_wf sd | None => true end
      end
    else if beqb media MT_INDEX then
      match decode_index data with
      | None => false
      | Some m =>
          forallb (fun de => ref_wf de && is_some (sman l r (d_digest de))) (ix_manifests m)
          && match ix_subject m with Some sd => ref_wf sd | None => true end
      end
    else true.

  (* the digest a stored manifest names as its subject ([] when none) *)
  Definition subject_of (media data : bytes) : bytes :=
    if beqb media MT_IMAGE then
      match decode_image data with
      | Some m => match im_subject m with Some sd => d_digest sd | None => [] end
      | None => []
      end
    else if beqb media MT_INDEX then
      match decode_index data with
      | Some m => match ix_subject m with Some sd => d_digest sd | None => [] end
      | None => []
      end
    else [].

  (* everything a manifest's content references directly, with what kind of thing it is *)
  Definition children (media data : bytes) : list (bool * bytes) :=   (* true = manifest, false = blob *)
    if beqb media MT_IMAGE then
      match decode_image data with
      | Some m => map (fun de => (false, d_digest de)) (im_layers m ++ [im_config m])
                  ++ match im_subject m with Some sd => [(true, d_digest sd)] | None => [] end
      | None => []
      end
    else if beqb media MT_INDEX then
      match decode_index data with
      | Some m => map (fun de => (true, d_digest de)) (ix_manifests m)
                  ++ match ix_subject m with Some sd => [(true, d_digest sd)] | None => [] end
      | None => []
      end
    else [].

  (* is digest [d] reachable from manifest digest [m] through stored manifests?
     None = the search ran out of fuel (only possible when stored manifests form a digest
     cycle, i.e. a hash collision) *)
  Fixpoint reaches (fuel : nat) (l : list event) (r m d : bytes) : option bool :=
    if beqb m d then Some true
    else
      match fuel with
      | O => None
      | S f =>
          match sman l r m with
          | None => Some false
          | Some (media, data) =>
              (fix go (cs : list (bool * bytes)) : option bool :=
                 match cs with
                 | [] => Some false
                 | (ism, c) :: cs' =>
                     if ism then
                       match reaches f l r c d with
                       | Some true => Some true
                       | Some false => go cs'
                       | None => None
                       end
                     else if beqb c d then Some true else go cs'
                 end) (children media data)
          end
      end.

  Definition tagged_reaches (l : list event) (r d : bytes) : option bool :=
    (fix go (ts : list bytes) : option bool :=
       match ts with
       | [] => Some false
       | t :: ts' =>
           match stag l r t with
           | Some de =>
               match reaches (S (length (man_keys l r))) l r (d_digest de) d with
               | Some true => Some true
               | Some false => go ts'
               | None => None
               end
           | None => go ts'
           end
       end) (tag_keys l r).

  Definition unknown_or (l : list event) (r : bytes) (c : ecode) (what : string) : err :=
    if has_content l r then E c (s what) else e_name_unknown.

  Definition with_sbuf (st : sstate) (i : nat) (f : buffer -> buffer) : sstate :=
    {| slog := slog st; sbufs := upd_nth i f (sbufs st); sups := sups st; snext := snext st |}.
  Definition with_log (st : sstate) (ev : event) : sstate :=
    {| slog := ev :: slog st; sbufs := sbufs st; sups := sups st; snext := snext st |}.

  Definition sstep (st : sstate) (o : op) : sstate * result :=
    let l := slog st in
    match o with
    | GetBlob r d =>
        (st, match sblob l r d with
             | Some (m, data) => Ok (RRead (sdesc m d data) data)
             | None => Err (unknown_or l r BLOB_UNKNOWN "blob unknown")
             end)
    | GetBlobRange r d o0 o1 =>
        (st, match sblob l r d with
             | Some (m, data) =>
                 let n := blen data in
                 let o1' := if (o1 <? 0)%Z || (o1 >? n)%Z then n else o1 in
                 if (o0 <? 0)%Z || (o0 >? o1')%Z then Err (e_plain (s "invalid range"))
                 else Ok (RRead (sdesc m d data) (slice data o0 o1'))
             | None => Err (unknown_or l r BLOB_UNKNOWN "blob unknown")
             end)
    | GetManifest r d =>
        (st, match sman l r d with
             | Some (m, data) => Ok (RRead (sdesc m d data) data)
             | None => Err (unknown_or l r MANIFEST_UNKNOWN "manifest unknown")
             end)
    | GetTag r t =>
        (st, match stag l r t with
             | None => Err (unknown_or l r MANIFEST_UNKNOWN "manifest unknown")
             | Some de => match sman l r (d_digest de) with
                          | Some (m, data) => Ok (RRead (sdesc m (d_digest de) data) data)
                          | None => Err (E MANIFEST_UNKNOWN (s "manifest unknown"))
                          end
             end)
    | ResolveTag r t =>
        (st, match stag l r t with
             | None => Err (unknown_or l r MANIFEST_UNKNOWN "manifest unknown")
             | Some de => Ok (RDesc de)
             end)
    | ResolveBlob r d =>
        (st, match sblob l r d with
             | Some (m, data) => Ok (RDesc (sdesc m d data))
             | None => Err (unknown_or l r BLOB_UNKNOWN "blob unknown")
             end)
    | ResolveManifest r d =>
        (st, match sman l r d with
             | Some (m, data) => Ok (RDesc (sdesc m d data))
             | None => Err (unknown_or l r MANIFEST_UNKNOWN "manifest unknown")
             end)
    | PushBlob r de content =>
        if negb (valid_digest (d_digest de)) || negb (beqb (hash content) (d_digest de))
        then (st, Err (E DIGEST_INVALID (s "digest does not match content")))
        else if negb (d_size de =? blen content)%Z then (st, Err (E SIZE_INVALID (s "size does not match content")))
        else if beqb (d_media de) [] then (st, Err (e_plain (s "rejected")))
        else if negb (valid_repo r) then (st, Err e_name_invalid)
        else (with_log st (EvBlob r (d_digest de) (Some (d_media de, content))), Ok (RDesc de))
    | PushBlobChunked r hint | PushBlobChunkedResume r _ _ hint =>
        let id := match o with PushBlobChunkedResume _ id _ _ => id | _ => [] end in
        let off := match o with PushBlobChunkedResume _ _ off _ => off | _ => 0%Z end in
        if negb (valid_repo r) then (st, Err e_name_invalid)
        else
          match sup (sups st) r id with
          | Some i =>
              (with_sbuf st (N.to_nat i) (fun b =>
                 {| u_repo := u_repo b; u_id := u_id b; u_buf := u_buf b; u_check := off;
                    u_committed := u_committed b; u_desc := u_desc b; u_err := u_err b |}),
               Ok (RWriter i))
          | None =>
              let id' := match id with [] => fresh_id (snext st) | _ => id end in
              let i := N.of_nat (length (sbufs st)) in
              ({| slog := l; sbufs := sbufs st ++ [new_buffer r id' off];
                  sups := (r, id', i) :: sups st;
                  snext := match id with [] => N.succ (snext st) | _ => snext st end |},
               Ok (RWriter i))
          end
    | MountBlob from to d =>
        if negb (valid_repo to) then (st, Err e_name_invalid)
        else
          match sblob l from d with
          | Some (m, data) => (with_log st (EvBlob to d (Some (m, data))), Ok (RDesc (sdesc m d data)))
          | None => (st, Err (unknown_or l from BLOB_UNKNOWN "blob unknown"))
          end
    | PushManifest r t data media =>
        let dig := hash data in
        let de := sdesc media dig data in
        let store (_ : unit) :=
          if immutable_tags cfg
             && match sman l r dig with Some (m, _) => negb (beqb m media) | None => false end
          then (st, Err (E DENIED (s "stored under another media type")))
          else
          if beqb media [] || negb (valid_digest dig) then (st, Err (e_plain (s "rejected")))
          else if negb (acceptable l r media data) then (st, Err (e_plain (s "rejected")))
          else
            let st1 := with_log st (EvMan r dig (Some (media, data))) in
            (match t with [] => st1 | _ => with_log st1 (EvTag r t (Some de)) end, Ok (RDesc de)) in
        if negb (valid_repo r) then (st, Err e_name_invalid)
        else match t with
             | [] => store tt
             | _ =>
                 if negb (valid_tag t) then (st, Err (e_plain (s "rejected")))
                 else if immutable_tags cfg then
                   match stag l r t with
                   | Some cur =>
                       if beqb dig (d_digest cur) && beqb (d_media cur) media then (st, Ok (RDesc cur))
                       else (st, Err (E DENIED (s "tag is immutable")))
                   | None => store tt
                   end
                 else store tt
             end
    | DeleteBlob r d =>
        match sblob l r d with
        | None => (st, Err (unknown_or l r BLOB_UNKNOWN "blob unknown"))
        | Some _ =>
            if immutable_tags cfg then
              match tagged_reaches l r d with
              | Some true => (st, Err (E DENIED (s "referenced from a tag")))
              | Some false => (with_log st (EvBlob r d None), Ok RUnit)
              | None => (st, OutOfFuel)
              end
            else (with_log st (EvBlob r d None), Ok RUnit)
        end
    | DeleteManifest r d =>
        match sman l r d with
        | None => (st, Err (unknown_or l r MANIFEST_UNKNOWN "manifest unknown"))
        | Some _ =>
            if immutable_tags cfg then
              match tagged_reaches l r d with
              | Some true => (st, Err (E DENIED (s "referenced from a tag")))
              | Some false => (with_log st (EvMan r d None), Ok RUnit)
              | None => (st, OutOfFuel)
              end
            else (with_log st (EvMan r d None), Ok RUnit)
        end
    | DeleteTag r t =>
        match stag l r t with
        | None => (st, Err (unknown_or l r MANIFEST_UNKNOWN "manifest unknown"))
        | Some _ =>
            if immutable_tags cfg then (st, Err (E DENIED (s "tag is immutable")))
            else (with_log st (EvTag r t None), Ok RUnit)
        end
    | Repositories start => (st, Ok (RList (list_after start (repo_keys l)) None))
    | Tags r start =>
        (st, if has_content l r then Ok (RList (list_after start (tag_keys l r)) None)
             else Ok (RList [] (Some e_name_unknown)))
    | Referrers r d art =>
        (st, if has_content l r then
               let ks := filter (fun k => match sman l r k with
                                          | Some (m, data) => beqb (subject_of m data) d
                                          | None => false end) (man_keys l r) in
               Ok (RDescs (flat_map (fun k => match sman l r k with
                                              | Some (m, data) => [sdesc m k data]
                                              | None => [] end) (bsort ks)) None)
             else Ok (RDescs [] (Some e_name_unknown)))
    | WWrite w data =>
        match nth_error (sbufs st) (N.to_nat w) with
        | None => (st, Err (e_plain (s "no such writer")))
        | Some b =>
            if negb (u_check b =? -1)%Z && negb (blen (u_buf b) =? u_check b)%Z
            then (st, Err (E RANGE_INVALID (s "data does not start where the upload ends")))
            else (with_sbuf st (N.to_nat w) (fun b =>
                    {| u_repo := u_repo b; u_id := u_id b; u_buf := u_buf b ++ data; u_check := -1;
                       u_committed := u_committed b; u_desc := u_desc b; u_err := u_err b |}),
                  Ok (RN (blen data)))
        end
    | WClose w =>
        (st, match nth_error (sbufs st) (N.to_nat w) with None => Err (e_plain (s "no such writer")) | Some _ => Ok RUnit end)
    | WSize w =>
        (st, match nth_error (sbufs st) (N.to_nat w) with None => Err (e_plain (s "no such writer")) | Some b => Ok (RN (blen (u_buf b))) end)
    | WChunkSize w =>
        (st, match nth_error (sbufs st) (N.to_nat w) with None => Err (e_plain (s "no such writer")) | Some b => Ok (RN 8192) end)
    | WID w =>
        (st, match nth_error (sbufs st) (N.to_nat w) with None => Err (e_plain (s "no such writer")) | Some b => Ok (RStr (u_id b)) end)
    | WCancel w =>
        match nth_error (sbufs st) (N.to_nat w) with
        | None => (st, Err (e_plain (s "no such writer")))
        | Some _ =>
            (with_sbuf st (N.to_nat w) (fun b =>
               {| u_repo := u_repo b; u_id := u_id b; u_buf := u_buf b; u_check := u_check b;
                  u_committed := u_committed b; u_desc := u_desc b;
                  u_err := Some (e_plain (s "upload canceled")) |}), Ok RUnit)
        end
    | WCommit w d =>
        match nth_error (sbufs st) (N.to_nat w) with
        | None => (st, Err (e_plain (s "no such writer")))
        | Some b =>
            match u_err b with
            | Some e => (st, Err e)
            | None =>
                if beqb (hash (u_buf b)) d then
                  let n := blen (u_buf b) in
                  let st1 := with_sbuf st (N.to_nat w) (fun b =>
                     {| u_repo := u_repo b; u_id := u_id b; u_buf := u_buf b; u_check := u_check b;
                        u_committed := true; u_desc := octet_desc d n; u_err := None |}) in
                  (with_log st1 (EvBlob (u_repo b) d (Some (MT_OCTET, u_buf b))), Ok (RDesc (octet_desc d n)))
                else
                  let e := E DIGEST_INVALID (s "digest mismatch") in
                  (with_sbuf st (N.to_nat w) (fun b =>
                     {| u_repo := u_repo b; u_id := u_id b; u_buf := u_buf b; u_check := u_check b;
                        u_committed := u_committed b; u_desc := u_desc b; u_err := Some e |}), Err e)
            end
        end
    end.

  (* The slack the property grants: on a repository that holds no content the
     implementation may answer "unknown repository" or the empty / X_UNKNOWN answer.
     [slack l o r] says result [r] of operation [o] is such an answer. *)
  Definition op_repo (o : op) : option bytes :=
    match o with
    | GetBlob r _ | GetBlobRange r _ _ _ | GetManifest r _ | GetTag r _ | ResolveBlob r _
    | ResolveManifest r _ | ResolveTag r _ | DeleteBlob r _ | DeleteManifest r _
    | DeleteTag r _ | Tags r _ | Referrers r _ _ => Some r
    | MountBlob f _ _ => Some f
    | _ => None
    end.
  Definition empty_answer (o : op) (r : result) : bool :=
    match o, r with
    | (GetBlob _ _ | GetBlobRange _ _ _ _ | ResolveBlob _ _ | DeleteBlob _ _ | MountBlob _ _ _), Err e =>
        ecode_eqb (e_code e) BLOB_UNKNOWN || ecode_eqb (e_code e) NAME_UNKNOWN
    | (GetManifest _ _ | GetTag _ _ | ResolveManifest _ _ | ResolveTag _ _ | DeleteManifest _ _ | DeleteTag _ _), Err e =>
        ecode_eqb (e_code e) MANIFEST_UNKNOWN || ecode_eqb (e_code e) NAME_UNKNOWN
    | Tags _ _, Ok (RList [] e) =>
        match e with None => true | Some e => ecode_eqb (e_code e) NAME_UNKNOWN end
    | Referrers _ _ _, Ok (RDescs [] e) =>
        match e with None => true | Some e => ecode_eqb (e_code e) NAME_UNKNOWN end
    | _, _ => false
    end.
End Spec.
