(* Model of ociregistry/ociauth/auth.go: stdTransport.RoundTrip and everything below it
   (registry.init, setAuthorization, setAuthorizationFromChallenge, acquireAccessToken,
   acquireToken, doTokenRequest, deleteExpiredTokens, accessTokenForScope), function by
   function, over the scope model (Model/Scope.v) and the challenge parser (Model/Challenge.v).

   What is outside the code is an ARGUMENT (record [env]); theorems quantify over it:
     e_cfg    Config.EntryForRegistry (None = it returned an error)
     e_net    the underlying http.RoundTripper: a function of everything that happened so far
              and the message, giving the response
     e_clock  time.Now(), a function of everything that happened so far
     e_purl   net/url.Parse on a realm: None = error, else the URL without its query and the
              query as url.Values (keys ascending, each with its values)
   Time is in microseconds.  encoding/json is inside [e_net]: a token response body is given
   decoded (or as unreadable / malformed).  http.Client inside doTokenRequest: one message, one
   answer - the answer is what Client.Do returns for the token request (after whatever
   redirects it followed; [RFail] when Do returns an error).  The hops themselves - which
   requests the client sends when a token server answers 3xx, and what they carry - are the
   subject of Model/AuthRedirect.v.

   Concurrency.  RoundTrip has three atomic phases per call, separated by the two round trips
   to the registry, which happen outside any lock:
     phase 1  clone, registry lookup/creation (a.mu), init (sync.Once), setAuthorization
              (r.mu, including any token requests), first attempt handed to the transport
     phase 2  (after the first response) challengeFromResponse, setAuthorizationFromChallenge
              (r.mu, including token requests), GetBody, second attempt handed to the transport
     phase 3  (after the second response) the 401 -> 403 rewrite
   A schedule is a list of [Start id request] / [Resume id]; any number of calls are in flight.
   Phases of calls to different hosts touch disjoint registry state; phases on one host are
   serialised by r.mu in the code, which is what makes them atomic here.

   Everything that happens is appended to the history ([hist], newest first); [trace] is the
   chronological list.  Go panic site carried explicitly: the nil dereference of
   r.wwwAuthenticate in acquireToken ([Panic]; Proofs/Auth.v: unreachable). *)
From Coq Require Import String ZArith.
From OCI Require Export Base.Outcome Model.Scope Model.Challenge Model.AuthFile.

Local Open Scope Z_scope.

Definition second : Z := 1000000.
(* time.Date(99999, time.January, 1, 0, 0, 0, 0, time.UTC), microseconds since 1970 *)
Definition forever : Z := 3093527980800 * second.

(* ---------- messages ---------- *)

(* the Authorization header of an outgoing request *)
Inductive authz := ANone | ABearer (t : bytes) | ABasic (u p : bytes) | AOther (raw : bytes).

(* the request body handed to RoundTrip: nil / without GetBody / with GetBody / GetBody fails *)
Inductive body := BNone | BPlain | BGet | BGetFail.

Record request := {
  q_host : bytes;           (* req.URL.Host *)
  q_required : scope;       (* RequestInfoFromContext(ctx).RequiredScope *)
  q_want : scope;           (* ScopeFromContext(ctx) *)
  q_body : body;
  q_auth : authz            (* the Authorization header the caller put there itself *)
}.

Definition values := list (bytes * list bytes).     (* url.Values, keys ascending *)

Inductive msg :=
  | MReg (host : bytes) (a : authz)                              (* the caller's request, forwarded *)
  | MPost (realm : bytes) (form : list (bytes * bytes)) (a : authz)   (* token request, OAuth2 POST *)
  | MGet (base : bytes) (query : values) (a : authz).           (* token request, GET *)

Record wire_token := { wt_token : bytes; wt_access : bytes; wt_refresh : bytes; wt_expires : Z }.

Inductive tbody := TBReadErr | TBBadJSON | TBJSON (w : wire_token).

Inductive resp :=
  | RFail                                                        (* the transport returned an error *)
  | RHttp (status : N) (www : list bytes) (b : tbody).          (* status, Www-Authenticate values, body *)

(* what RoundTrip returns: a response (status; is it the synthesised DENIED body) or an error
   (does errors.As find an ociregistry.HTTPError in it, and its status) *)
Inductive result := RetResp (status : N) (denied : bool) | RetErr (http : option N).

Inductive event :=
  | EStart (id : nat) (q : request)
  | EResume (id : nat)
  | ESend (id : nat) (m : msg) (r : resp)
  | ESelfClose (id : nat)          (* RoundTrip itself closed the request body *)
  | ERespClose (id : nat)          (* RoundTrip closed the body of a response it does not return *)
  | EGetBody (id : nat)            (* req.GetBody() was called *)
  | EReturn (id : nat) (res : result).

Definition hist := list event.      (* newest first *)

Record env := {
  e_cfg : bytes -> option config_entry;
  e_net : hist -> msg -> resp;
  e_clock : hist -> Z;
  e_purl : bytes -> option (bytes * values)
}.

(* ---------- registry state ---------- *)

Record scoped_token := { st_scope : scope; st_token : bytes; st_expires : Z }.

Record registry := {
  r_inited : bool;                    (* initOnce has run *)
  r_initerr : bool;                   (* initErr != nil *)
  r_www : option auth_header;         (* wwwAuthenticate *)
  r_tokens : list scoped_token;       (* accessTokens *)
  r_refresh : bytes;                  (* refreshToken *)
  r_basic : option (bytes * bytes);   (* basic *)
  r_asked : list scope                (* ghost, not in the code: every scope a token was ever asked for *)
}.

Definition new_registry : registry :=
  {| r_inited := false; r_initerr := false; r_www := None; r_tokens := []; r_refresh := []; r_basic := None; r_asked := [] |}.

Definition set_www (r : registry) (w : auth_header) : registry :=
  {| r_inited := r_inited r; r_initerr := r_initerr r; r_www := Some w; r_tokens := r_tokens r;
     r_refresh := r_refresh r; r_basic := r_basic r; r_asked := r_asked r |}.
Definition set_tokens (r : registry) (l : list scoped_token) : registry :=
  {| r_inited := r_inited r; r_initerr := r_initerr r; r_www := r_www r; r_tokens := l;
     r_refresh := r_refresh r; r_basic := r_basic r; r_asked := r_asked r |}.
(* r.accessTokens = append(r.accessTokens, tok)  (and the ghost list) *)
Definition add_token (r : registry) (tok : scoped_token) : registry :=
  {| r_inited := r_inited r; r_initerr := r_initerr r; r_www := r_www r; r_tokens := r_tokens r ++ [tok];
     r_refresh := r_refresh r; r_basic := r_basic r; r_asked := r_asked r |}.
Definition ask (r : registry) (sc : scope) : registry :=
  {| r_inited := r_inited r; r_initerr := r_initerr r; r_www := r_www r; r_tokens := r_tokens r;
     r_refresh := r_refresh r; r_basic := r_basic r; r_asked := sc :: r_asked r |}.
Definition set_refresh (r : registry) (t : bytes) : registry :=
  {| r_inited := r_inited r; r_initerr := r_initerr r; r_www := r_www r; r_tokens := r_tokens r;
     r_refresh := t; r_basic := r_basic r; r_asked := r_asked r |}.

Definition nonempty (a : bytes) : bool := negb (is_nil a).

(* func (r *registry) init() error -- the body of initOnce.Do *)
Definition init_inner (ce : option config_entry) : registry :=
  match ce with
  | None => {| r_inited := true; r_initerr := true; r_www := None; r_tokens := []; r_refresh := []; r_basic := None; r_asked := [] |}
  | Some info =>
      {| r_inited := true; r_initerr := false; r_www := None;
         r_tokens := if nonempty (ce_access info)
                     then [{| st_scope := UnlimitedScope; st_token := ce_access info; st_expires := forever |}]
                     else [];
         r_refresh := ce_refresh info;
         r_basic := if nonempty (ce_user info) && nonempty (ce_pass info)
                    then Some (ce_user info, ce_pass info) else None;
         r_asked := [] |}
  end.

(* func (r *registry) deleteExpiredTokens(now time.Time):  delete when now.After(tok.expires) *)
Definition delete_expired (r : registry) (now : Z) : registry :=
  set_tokens r (filter (fun tok => negb (st_expires tok <? now)) (r_tokens r)).

(* func (r *registry) accessTokenForScope(scope Scope) *scopedToken *)
Definition access_token_for_scope (r : registry) (sc : scope) : option scoped_token :=
  find (fun tok => Contains (st_scope tok) sc) (r_tokens r).

(* ---------- url.Values ---------- *)

(* v[k] = vs   (keys kept ascending, as Encode and the observation list them) *)
Fixpoint vset (k : bytes) (vs : list bytes) (v : values) : values :=
  match v with
  | [] => [(k, vs)]
  | (k', vs') :: rest =>
      match bcmp k k' with
      | Eq => (k, vs) :: rest
      | Lt => (k, vs) :: v
      | Gt => (k', vs') :: vset k vs rest
      end
  end.

Definition k_scope := s "scope".
Definition k_service := s "service".
Definition k_realm := s "realm".
Definition k_client_id := s "client_id".
Definition k_grant_type := s "grant_type".
Definition k_refresh_token := s "refresh_token".
Definition oauthClientID := s "cuelabs-ociauth".

Definition basic_of (r : registry) : authz :=
  match r_basic r with Some (u, p) => ABasic u p | None => ANone end.

Inductive terr := TPlain | THttp (status : N).     (* an error: is it an ociregistry.HTTPError *)

Section Transport.
  Variable E : env.

  Definition send (id : nat) (m : msg) (h : hist) : resp * hist :=
    let r := e_net E h m in (r, ESend id m r :: h).

  (* time.Now(): every read is preceded by a new event (the call itself, or the token
     response), so a function of the history can give every read its own value *)
  Definition now (h : hist) : Z := e_clock E h.

  (* func (r *registry) doTokenRequest(req *http.Request) (wireToken, error) *)
  Definition do_token_request (id : nat) (m : msg) (h : hist) : R terr wire_token * hist :=
    let (r, h1) := send id m h in
    match r with
    | RFail => (Err TPlain, h1)
    | RHttp st _ b =>
        if negb (st =? 200)%N then (Err (THttp st), h1)
        else match b with
             | TBReadErr => (Err TPlain, h1)
             | TBBadJSON => (Err TPlain, h1)
             | TBJSON w => (Ok w, h1)
             end
    end.

  (* the GET half of acquireToken *)
  Definition acquire_token_get (id : nat) (r : registry) (www : auth_header) (sc : scope) (h : hist)
    : R terr wire_token * hist :=
    let realm := pget k_realm (ah_params www) in
    match e_purl E realm with
    | None => (Err TPlain, h)                   (* malformed realm *)
    | Some (base, q) =>
        let v := vset k_scope (split_byte space (String sc)) q in
        let service := pget k_service (ah_params www) in
        let v := if nonempty service then vset k_service [service] v else v in
        do_token_request id (MGet base v (basic_of r)) h
    end.

  (* func (r *registry) acquireToken(ctx context.Context, scope Scope) (wireToken, error) *)
  Definition acquire_token (id : nat) (r : registry) (sc : scope) (h : hist) : R terr wire_token * hist :=
    match r_www r with
    | None => (Panic, h)
    | Some www =>
        let realm := pget k_realm (ah_params www) in
        if is_nil realm then (Err TPlain, h)       (* missing realm *)
        else if nonempty (r_refresh r) then
          match e_purl E realm with
          | None => (Err TPlain, h)              (* cannot form HTTP request *)
          | Some _ =>
              let service := pget k_service (ah_params www) in
              let form :=
                [(k_client_id, oauthClientID); (k_grant_type, k_refresh_token);
                 (k_refresh_token, r_refresh r); (k_scope, String sc)]
                ++ (if nonempty service then [(k_service, service)] else []) in
              let (res, h1) := do_token_request id (MPost realm form ANone) h in
              match res with
              | Err (THttp st) =>
                  if (st =? 404)%N then acquire_token_get id r www sc h1 else (res, h1)
              | _ => (res, h1)
              end
          end
        else acquire_token_get id r www sc h
    end.

  (* func (r *registry) acquireAccessToken(ctx, requiredScope, wantScope Scope) (string, error) *)
  Definition acquire_access_token (id : nat) (r : registry) (required want : scope) (h : hist)
    : R terr bytes * registry * hist :=
    let sc := Union required want in
    let r := ask r sc in                                   (* ghost *)
    let (res, h1) := acquire_token id r sc h in
    let '(res2, sc2, r, h2) :=
      match res with
      | Err (THttp st) =>
          if (st =? 401)%N then
            let r := ask r required in                     (* ghost *)
            let (res', h') := acquire_token id r required h1 in (res', required, r, h')
          else (res, sc, r, h1)
      | _ => (res, sc, r, h1)
      end in
    match res2 with
    | Ok tok =>
        let r1 := if nonempty (wt_refresh tok) then set_refresh r (wt_refresh tok) else r in
        let accessToken := if nonempty (wt_token tok) then wt_token tok else wt_access tok in
        if is_nil accessToken then (Err TPlain, r1, h2)
        else
          let t := now h2 in
          let expires := if wt_expires tok =? 0 then t + 60 * second else t + wt_expires tok * second in
          (Ok accessToken,
           add_token r1 {| st_scope := sc2; st_token := accessToken; st_expires := expires |},
           h2)
    | Err e => (Err e, r, h2)
    | Panic => (Panic, r, h2)
    | OutOfFuel => (OutOfFuel, r, h2)
    end.

  (* func (r *registry) setAuthorization(ctx, req, requiredScope, wantScope Scope) error
     [hdr] is the Authorization header of the (cloned) request; the new one is returned *)
  Definition set_authorization (id : nat) (r : registry) (hdr : authz) (required want : scope) (h : hist)
    : R terr authz * registry * hist :=
    let t := now h in
    let h0 := h in
    let r0 := delete_expired r (t + second) in
    match access_token_for_scope r0 required with
    | Some tok => (Ok (ABearer (st_token tok)), r0, h0)
    | None =>
        match r_www r0 with
        | None => (Ok hdr, r0, h0)
        | Some www =>
            if nonempty (r_refresh r0) && beqb (ah_scheme www) sch_bearer then
              let '(res, r1, h1) := acquire_access_token id r0 required want h0 in
              match res with
              | Ok tok => (Ok (ABearer tok), r1, h1)
              | Err _ => (Err TPlain, r1, h1)      (* wrapped with percent-v: identity lost on purpose *)
              | Panic => (Panic, r1, h1)
              | OutOfFuel => (OutOfFuel, r1, h1)
              end
            else if negb (beqb (ah_scheme www) sch_bearer) then
              match r_basic r0 with
              | Some (u, p) => (Ok (ABasic u p), r0, h0)
              | None => (Ok hdr, r0, h0)
              end
            else (Ok hdr, r0, h0)
        end
    end.

  (* func (r *registry) setAuthorizationFromChallenge(...) (authAdded, tokenAcquired bool, _ error)
     returns (header, authAdded, tokenAcquired) *)
  Definition set_authorization_from_challenge (id : nat) (r : registry) (hdr : authz)
      (challenge : auth_header) (required want : scope) (h : hist)
    : R terr (authz * bool * bool) * registry * hist :=
    let r0 := set_www r challenge in
    if beqb (ah_scheme challenge) sch_bearer then
      let sc := ParseScope (pget k_scope (ah_params challenge)) in
      let '(res, r1, h1) := acquire_access_token id r0 sc (Union want required) h in
      match res with
      | Ok tok => (Ok (ABearer tok, true, true), r1, h1)
      | Err e => (Err e, r1, h1)
      | Panic => (Panic, r1, h1)
      | OutOfFuel => (OutOfFuel, r1, h1)
      end
    else
      match r_basic r0 with
      | Some (u, p) => (Ok (ABasic u p, true, false), r0, h)
      | None => (Ok (hdr, false, false), r0, h)
      end.

  (* ---------- RoundTrip, phase by phase ---------- *)

  Inductive pc :=
    | PAwait1 (r : resp)                       (* first attempt handed over; its response *)
    | PAwait2 (r : resp) (tokenAcquired : bool)
    | PDone.

  Record thread := { th_q : request; th_hdr : authz; th_pc : pc }.

  Record state := {
    regs : list (bytes * registry);            (* a.registries *)
    threads : list (nat * thread);
    history : hist
  }.

  Definition init_state : state := {| regs := []; threads := []; history := [] |}.

  Fixpoint reg_get (host : bytes) (m : list (bytes * registry)) : option registry :=
    match m with
    | [] => None
    | (k, r) :: rest => if beqb host k then Some r else reg_get host rest
    end.
  Fixpoint reg_set (host : bytes) (r : registry) (m : list (bytes * registry)) : list (bytes * registry) :=
    match m with
    | [] => [(host, r)]
    | (k, r') :: rest => if beqb host k then (k, r) :: rest else (k, r') :: reg_set host r rest
    end.
  Fixpoint th_get (id : nat) (m : list (nat * thread)) : option thread :=
    match m with
    | [] => None
    | (k, t) :: rest => if Nat.eqb id k then Some t else th_get id rest
    end.
  Fixpoint th_set (id : nat) (t : thread) (m : list (nat * thread)) : list (nat * thread) :=
    match m with
    | [] => [(id, t)]
    | (k, t') :: rest => if Nat.eqb id k then (k, t) :: rest else (k, t') :: th_set id t rest
    end.

  Definition has_body (b : body) : bool := match b with BNone => false | _ => true end.

  (* the deferred  if needBodyClose && req.Body != nil { req.Body.Close() } *)
  Definition self_close (id : nat) (q : request) (h : hist) : hist :=
    if has_body (q_body q) then ESelfClose id :: h else h.

  Definition herr (e : terr) : option N := match e with TPlain => None | THttp st => Some st end.

  Definition finish (st : state) (id : nat) (q : request) (hdr : authz) (rg : list (bytes * registry))
      (res : result) (h : hist) : state :=
    {| regs := rg; threads := th_set id {| th_q := q; th_hdr := hdr; th_pc := PDone |} (threads st);
       history := EReturn id res :: h |}.

  (* phase 1: from the call up to handing the first attempt to the transport *)
  Definition phase1 (st : state) (id : nat) (q : request) : state :=
    let h := EStart id q :: history st in
    let hdr := q_auth q in                                   (* req = req.Clone(req.Context()) *)
    let host := q_host q in
    let r := match reg_get host (regs st) with Some r => r | None => new_registry end in
    let r := if r_inited r then r else init_inner (e_cfg E host) in
    let rg := reg_set host r (regs st) in
    if r_initerr r then finish st id q hdr rg (RetErr None) (self_close id q h)
    else
      let '(res, r1, h1) := set_authorization id r hdr (q_required q) (q_want q) h in
      let rg1 := reg_set host r1 rg in
      match res with
      | Ok hdr1 =>
          let (rsp, h2) := send id (MReg host hdr1) h1 in
          {| regs := rg1; threads := th_set id {| th_q := q; th_hdr := hdr1; th_pc := PAwait1 rsp |} (threads st);
             history := h2 |}
      | _ => finish st id q hdr rg1 (RetErr None) (self_close id q h1)
      end.

  (* phase 2: from the first response up to handing the second attempt to the transport *)
  Definition phase2 (st : state) (id : nat) (th : thread) (rsp : resp) : state :=
    let q := th_q th in
    let hdr := th_hdr th in
    let h := EResume id :: history st in
    match rsp with
    | RFail => finish st id q hdr (regs st) (RetErr None) h
    | RHttp status www _ =>
        if negb (status =? 401)%N then finish st id q hdr (regs st) (RetResp status false) h
        else match challenge_from_response www with
             | None => finish st id q hdr (regs st) (RetResp status false) h
             | Some challenge =>
                 let host := q_host q in
                 let r := match reg_get host (regs st) with Some r => r | None => new_registry end in
                 let '(res, r1, h1) :=
                   set_authorization_from_challenge id r hdr challenge (q_required q) (q_want q) h in
                 let rg1 := reg_set host r1 (regs st) in
                 match res with
                 | Ok (hdr1, authAdded, tokenAcquired) =>
                     if negb authAdded then finish st id q hdr1 rg1 (RetResp status false) h1
                     else
                       let h2 := ERespClose id :: h1 in
                       match q_body q with
                       | BGetFail => finish st id q hdr1 rg1 (RetErr None) (EGetBody id :: h2)
                       | b =>
                           let h3 := match b with BGet => EGetBody id :: h2 | _ => h2 end in
                           let (rsp2, h4) := send id (MReg host hdr1) h3 in
                           {| regs := rg1;
                              threads := th_set id {| th_q := q; th_hdr := hdr1; th_pc := PAwait2 rsp2 tokenAcquired |} (threads st);
                              history := h4 |}
                       end
                 | Err e => finish st id q hdr rg1 (RetErr (herr e)) (ERespClose id :: h1)
                 | _ => finish st id q hdr rg1 (RetErr None) (ERespClose id :: h1)
                 end
             end
    end.

  (* phase 3: after the second response *)
  Definition phase3 (st : state) (id : nat) (th : thread) (rsp : resp) (tokenAcquired : bool) : state :=
    let q := th_q th in
    let h := EResume id :: history st in
    match rsp with
    | RFail => finish st id q (th_hdr th) (regs st) (RetErr None) h
    | RHttp status _ _ =>
        if negb (status =? 401)%N || negb tokenAcquired
        then finish st id q (th_hdr th) (regs st) (RetResp status false) h
        else finish st id q (th_hdr th) (regs st) (RetResp 403 true) (ERespClose id :: h)
    end.

  Inductive sched := Start (id : nat) (q : request) | Resume (id : nat).

  Definition step (st : state) (x : sched) : state :=
    match x with
    | Start id q =>
        match th_get id (threads st) with
        | Some _ => st                                  (* ids are fresh; a reused id is ignored *)
        | None => phase1 st id q
        end
    | Resume id =>
        match th_get id (threads st) with
        | Some th =>
            match th_pc th with
            | PAwait1 rsp => phase2 st id th rsp
            | PAwait2 rsp ta => phase3 st id th rsp ta
            | PDone => st
            end
        | None => st
        end
    end.

  Definition run (l : list sched) : state := fold_left step l init_state.

  Definition trace (l : list sched) : list event := rev (history (run l)).
End Transport.
