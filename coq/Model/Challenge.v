(* Model of ociregistry/ociauth/challenge.go (whole file), byte by byte.

   octetTypes is the 256-entry table built by init(); a byte is a token byte when it is a CHAR
   (0..127) that is neither a CTL (0..31, 127) nor a separator, a space byte when it is one of
   SP HT CR LF.  Strings are byte lists; s[i:] is the list tail, s[:i] the consumed prefix.
   Go panic sites carried as explicit outcomes: the writes p[j] = b into the buffer
   p := make([]byte, len(s)-1) of expectTokenOrQuoted ([Panic] when j is not below the
   buffer length) and the fuel of the parameter loop ([OutOfFuel]).  Proofs/Challenge.v shows
   neither is reachable.  h.params (a Go map) is an association list in which a later
   assignment to the same key replaces the earlier one. *)
From Coq Require Import String.
From OCI Require Export Base.Outcome.

Definition in_bytes (c : N) (l : bytes) : bool := existsb (N.eqb c) l.

(* the separator bytes: SP HT dquote ( ) , / : ; < = > ? @ [ ] backslash { } *)
Definition separators : bytes :=
  [32; 9; 34; 40; 41; 44; 47; 58; 59; 60; 61; 62; 63; 64; 91; 93; 92; 123; 125].

(* octetTypes[c]&isSpace != 0 *)
Definition is_space (c : N) : bool := in_bytes c [32; 9; 13; 10].

(* octetTypes[c]&isToken != 0 *)
Definition is_token (c : N) : bool :=
  let isCtl := (c <=? 31) || (c =? 127) in
  let isChar := c <=? 127 in
  isChar && negb isCtl && negb (in_bytes c separators).

(* authHeader *)
Record auth_header := { ah_scheme : bytes; ah_params : list (bytes * bytes) }.

(* h.params[k] = v *)
Fixpoint pset (k v : bytes) (m : list (bytes * bytes)) : list (bytes * bytes) :=
  match m with
  | [] => [(k, v)]
  | (k', v') :: m' => if beqb k k' then (k, v) :: m' else (k', v') :: pset k v m'
  end.

(* h.params[k]  (the empty string when absent) *)
Fixpoint pget (k : bytes) (m : list (bytes * bytes)) : bytes :=
  match m with
  | [] => []
  | (k', v) :: m' => if beqb k k' then v else pget k m'
  end.

(* strings.ToLower on a token (tokens are ASCII) *)
Definition lower_byte (c : N) : N := if (65 <=? c) && (c <=? 90) then c + 32 else c.
Definition to_lower (a : bytes) : bytes := map lower_byte a.

(* func skipSpace(s string) (rest string) *)
Fixpoint skip_space (a : bytes) : bytes :=
  match a with
  | c :: r => if is_space c then skip_space r else a
  | [] => []
  end.

(* func expectToken(s string) (token, rest string) *)
Fixpoint expect_token (a : bytes) : bytes * bytes :=
  match a with
  | c :: r => if is_token c then let (t, rest) := expect_token r in (c :: t, rest) else ([], a)
  | [] => ([], [])
  end.

Definition quote : N := 34.
Definition backslash : N := 92.

(* the inner loop of expectTokenOrQuoted:  for i = i + 1; i < len(s); i++ { b := s[i]; switch ... }
   [rp] = p[:j] reversed (so j = length rp), [cap] = len(p) = len(s)-1, [rest] = s[i:] *)
Fixpoint unescape (cap : nat) (escape : bool) (rest : bytes) (rp : bytes) : R unit (bytes * bytes) :=
  match rest with
  | [] => Ok ([], [])                                   (* return empty, empty *)
  | b :: rest' =>
      if escape then
        if (List.length rp <? cap)%nat then unescape cap false rest' (b :: rp) else Panic
      else if b =? backslash then unescape cap true rest' rp
      else if b =? quote then Ok (rev rp, rest')        (* return string(p[:j]), s[i+1:] *)
      else if (List.length rp <? cap)%nat then unescape cap false rest' (b :: rp) else Panic
  end.

(* the outer loop: for i := 0; i < len(s); i++ { switch s[i] ... };  [rpre] = s[:i] reversed *)
Fixpoint quoted_scan (cap : nat) (rpre : bytes) (rest : bytes) : R unit (bytes * bytes) :=
  match rest with
  | [] => Ok ([], [])
  | c :: rest' =>
      if c =? quote then Ok (rev rpre, rest')           (* return s[:i], s[i+1:] *)
      else if c =? backslash then
        (* p := make([]byte, len(s)-1); j := copy(p, s[:i]); escape := true *)
        unescape cap true rest' (rev (firstn cap (rev rpre)))
      else quoted_scan cap (c :: rpre) rest'
  end.

(* func expectTokenOrQuoted(s string) (value string, rest string) *)
Definition expect_token_or_quoted (a : bytes) : R unit (bytes * bytes) :=
  match a with
  | c :: r => if c =? quote then quoted_scan (List.length r - 1) [] r else Ok (expect_token a)
  | [] => Ok (expect_token a)
  end.

Definition equals : N := 61.
Definition comma : N := 44.

Definition is_nil (a : bytes) : bool := match a with [] => true | _ => false end.

(* the loop  for len(s) > 0 { ... }  and the final  if len(s) > 0 { return nil } *)
Fixpoint parse_params (fuel : nat) (a : bytes) (params : list (bytes * bytes))
  : R unit (option (list (bytes * bytes))) :=
  match a with
  | [] => Ok (Some params)
  | _ =>
      match fuel with
      | O => OutOfFuel
      | S f =>
          let (pkey, s1) := expect_token (skip_space a) in
          if is_nil pkey then Ok None
          else match s1 with
               | c :: s2 =>
                   if negb (c =? equals) then Ok None
                   else
                     do (pvalue, s3) <- expect_token_or_quoted s2;
                     if is_nil pvalue then Ok None
                     else
                       let params' := pset (to_lower pkey) pvalue params in
                       let s4 := skip_space s3 in
                       match s4 with
                       | d :: s5 =>
                           if d =? comma then parse_params f s5 params'
                           else Ok None                 (* break; len(s) > 0 *)
                       | [] => Ok (Some params')
                       end
               | [] => Ok None
               end
      end
  end.

(* func parseWWWAuthenticate(header string) *authHeader *)
Definition parseWWWAuthenticate (header : bytes) : R unit (option auth_header) :=
  let (scheme, s1) := expect_token header in
  if is_nil scheme then Ok None
  else
    do ps <- parse_params (S (List.length s1)) (skip_space s1) [];
    match ps with
    | None => Ok None
    | Some params => Ok (Some {| ah_scheme := to_lower scheme; ah_params := params |})
    end.

(* the total reading used by the transport model (Proofs/Challenge.v: the other two outcomes
   do not occur) *)
Definition parse_www (header : bytes) : option auth_header :=
  match parseWWWAuthenticate header with
  | Ok r => r
  | _ => None
  end.

Definition sch_basic : bytes := s "basic".
Definition sch_bearer : bytes := s "bearer".

(* func challengeFromResponse(resp *http.Response) *authHeader: the loop over
   resp.Header["Www-Authenticate"], [h] = the choice so far *)
Fixpoint challenge_loop (vals : list bytes) (h : option auth_header) : option auth_header :=
  match vals with
  | [] => h
  | chalStr :: rest =>
      match parse_www chalStr with
      | None => challenge_loop rest h
      | Some h1 =>
          if negb (beqb (ah_scheme h1) sch_basic) && negb (beqb (ah_scheme h1) sch_bearer)
          then challenge_loop rest h
          else match h with
               | None => challenge_loop rest (Some h1)
               | Some h0 =>
                   if beqb (ah_scheme h1) sch_basic && beqb (ah_scheme h0) sch_bearer
                   then challenge_loop rest (Some h1)      (* We prefer basic auth to bearer auth. *)
                   else challenge_loop rest h
               end
      end
  end.

Definition challenge_from_response (vals : list bytes) : option auth_header := challenge_loop vals None.
