(* The specification of properties C10 and C11, written over what can be observed on the
   network: a history (list of events, newest first) together with the configuration, the clock
   and url.Parse.  Nothing here refers to the transport's state or code (Model/Auth.v is used
   only for the vocabulary of messages and events).

   Each clause is a check [ev e past] of one event against everything that happened before it;
   a history satisfies a clause when every event does ([all_ok]). *)
From Coq Require Import String ZArith.
From OCI Require Export Model.Auth Model.AuthRedirect.

Local Open Scope Z_scope.

Fixpoint all_ok (ev : event -> hist -> bool) (h : hist) : bool :=
  match h with
  | [] => true
  | e :: past => ev e past && all_ok ev past
  end.

(* ---------- reading a history ---------- *)

Definition authz_eqb (a b : authz) : bool :=
  match a, b with
  | ANone, ANone => true
  | ABearer t, ABearer t' => beqb t t'
  | ABasic u p, ABasic u' p' => beqb u u' && beqb p p'
  | AOther r, AOther r' => beqb r r'
  | _, _ => false
  end.

Definition is_tok_msg (m : msg) : bool := match m with MReg _ _ => false | _ => true end.

Fixpoint join_space (l : list bytes) : bytes :=
  match l with
  | [] => []
  | [a] => a
  | a :: l' => a ++ [space] ++ join_space l'
  end.

Fixpoint vget (k : bytes) (v : values) : list bytes :=
  match v with
  | [] => []
  | (k', vs) :: rest => if beqb k k' then vs else vget k rest
  end.

(* the scope a token request asks for: the form field, or the scope query parameters *)
Definition scope_text (m : msg) : bytes :=
  match m with
  | MPost _ f _ => pget k_scope f
  | MGet _ q _ => join_space (vget k_scope q)
  | MReg _ _ => []
  end.

(* the access token of a token response, and how long it lives *)
Definition tok_of (w : wire_token) : bytes := if nonempty (wt_token w) then wt_token w else wt_access w.
Definition life (w : wire_token) : Z := if wt_expires w =? 0 then 60 * second else wt_expires w * second.

(* the request of call [id] *)
Fixpoint req_of (id : nat) (h : hist) : option request :=
  match h with
  | EStart i q :: h' => if Nat.eqb i id then Some q else req_of id h'
  | _ :: h' => req_of id h'
  | [] => None
  end.

Definition on_host (id : nat) (host : bytes) (h : hist) : bool :=
  match req_of id h with Some q => beqb (q_host q) host | None => false end.

Definition is_marker (id : nat) (e : event) : bool :=
  match e with
  | EStart i _ => Nat.eqb i id
  | EResume i => Nat.eqb i id
  | _ => false
  end.

(* the history from the beginning of call [id]'s current phase backwards (its head is the
   EStart / EResume that opened the phase) *)
Fixpoint before_phase (id : nat) (h : hist) : hist :=
  match h with
  | [] => []
  | e :: h' => if is_marker id e then h else before_phase id h'
  end.

Definition ev_id (e : event) : nat :=
  match e with
  | EStart i _ | EResume i | ESend i _ _ | ESelfClose i | ERespClose i | EGetBody i | EReturn i _ => i
  end.

(* the events of call [id] in its current phase *)
Fixpoint phase_events (id : nat) (h : hist) : hist :=
  match h with
  | [] => []
  | e :: h' => if is_marker id e then []
               else if Nat.eqb (ev_id e) id then e :: phase_events id h' else phase_events id h'
  end.

Section Spec.
  Variable E : env.

  (* a token handed out by a token server *)
  Record issue := { i_id : nat; i_text : bytes; i_tok : bytes; i_refresh : bytes; i_exp : Z }.

  (* the issue made by the newest event of [h], if it is a token response with a JSON body;
     the token lives from the moment the response is in (the clock right after it) *)
  Definition issue_at (h : hist) : option issue :=
    match h with
    | ESend id m (RHttp st _ (TBJSON w)) :: _ =>
        if is_tok_msg m && (st =? 200)%N
        then Some {| i_id := id; i_text := scope_text m; i_tok := tok_of w; i_refresh := wt_refresh w;
                     i_exp := e_clock E h + life w |}
        else None
    | _ => None
    end.

  Definition ocons {A} (o : option A) (l : list A) : list A := match o with Some a => a :: l | None => l end.

  Fixpoint issues (h : hist) : list issue :=
    match h with
    | [] => []
    | _ :: h' => ocons (issue_at h) (issues h')
    end.

  Fixpoint phase_issues (id : nat) (h : hist) : list issue :=
    match h with
    | [] => []
    | e :: h' => if is_marker id e then []
                 else if Nat.eqb (ev_id e) id then ocons (issue_at h) (phase_issues id h') else phase_issues id h'
    end.

  (* the newest attempt of call [id] against the registry: header sent and response *)
  Fixpoint last_reg (id : nat) (h : hist) : option (authz * resp) :=
    match h with
    | ESend i (MReg _ a) r :: h' => if Nat.eqb i id then Some (a, r) else last_reg id h'
    | _ :: h' => last_reg id h'
    | [] => None
    end.

  Fixpoint count_reg (id : nat) (h : hist) : nat :=
    match h with
    | ESend i (MReg _ _) _ :: h' => if Nat.eqb i id then S (count_reg id h') else count_reg id h'
    | _ :: h' => count_reg id h'
    | [] => O
    end.

  (* the challenge in a registry response *)
  Definition challenge_of (r : resp) : option auth_header :=
    match r with
    | RHttp st www _ => if (st =? 401)%N then challenge_from_response www else None
    | RFail => None
    end.

  (* host [host] has answered some request with a challenge satisfying [p] *)
  Fixpoint named (host : bytes) (p : auth_header -> bool) (h : hist) : bool :=
    match h with
    | ESend _ (MReg hst _) r :: h' =>
        (beqb hst host && match challenge_of r with Some ch => p ch | None => false end) || named host p h'
    | _ :: h' => named host p h'
    | [] => false
    end.

  Definition opt_match (o : option bytes) (t : bytes) : bool :=
    match o with Some t' => beqb t' t | None => true end.

  (* at time [T] host [host] holds a usable token covering [R] (and equal to [ot] when given):
     one issued earlier to a call on that host that has at least a second to live and was
     asked for a scope containing R, or the configured one *)
  Definition cached_valid (host : bytes) (R : scope) (T : Z) (ot : option bytes) (older : hist) : bool :=
    existsb (fun i => nonempty (i_tok i) && on_host (i_id i) host older && (T + second <=? i_exp i)
                      && Contains (ParseScope (i_text i)) R && opt_match ot (i_tok i)) (issues older)
    || match e_cfg E host with
       | Some ce => nonempty (ce_access ce) && (T + second <=? forever) && opt_match ot (ce_access ce)
       | None => false
       end.

  (* ---------- C10 ---------- *)

  (* S1  a bearer token forwarded to the registry is the caller's own header, or was issued in
     this very phase (for a scope covering the required scope, resp. the challenge's scope), or
     is a cached one that is the host's own, has a second to live and covers the required scope *)
  Definition evS1 (e : event) (h : hist) : bool :=
    match e with
    | ESend id (MReg host (ABearer t)) _ =>
        match req_of id h with
        | None => false
        | Some q =>
            let fresh := filter (fun i => beqb (i_tok i) t && nonempty t) (phase_issues id h) in
            match before_phase id h with
            | EStart _ _ :: older =>
                match q_auth q with ABearer t' => beqb t' t | _ => false end
                || existsb (fun i => Contains (ParseScope (i_text i)) (q_required q)) fresh
                || cached_valid host (q_required q) (e_clock E (before_phase id h)) (Some t) older
            | EResume _ :: older =>
                match last_reg id older with
                | Some (_, r) =>
                    match challenge_of r with
                    | Some ch =>
                        existsb (fun i => Contains (ParseScope (i_text i)) (ParseScope (pget k_scope (ah_params ch)))) fresh
                    | None => false
                    end
                | None => false
                end
            | _ => false
            end
        end
    | _ => true
    end.

  (* S2  no token request while a usable covering token is cached, and no extra round trip
     either: the first attempt then carries a bearer token (S1 says which ones it may carry),
     it does not go out bare to fetch a challenge; a second attempt only in answer to a
     challenge *)
  Definition evS2 (e : event) (h : hist) : bool :=
    match e with
    | ESend id m _ =>
        match before_phase id h with
        | EStart _ q :: older =>
            if is_tok_msg m
            then negb (cached_valid (q_host q) (q_required q) (e_clock E (before_phase id h)) None older)
            else if cached_valid (q_host q) (q_required q) (e_clock E (before_phase id h)) None older
                 then match m with MReg _ (ABearer _) => true | _ => false end
                 else true
        | EResume _ :: older =>
            if is_tok_msg m then true
            else match last_reg id older with
                 | Some (_, r) => match challenge_of r with Some _ => true | None => false end
                 | None => false
                 end
        | _ => false
        end
    | _ => true
    end.

  (* some token request of this phase was refused with 401 *)
  Definition narrowed (id : nat) (h : hist) : bool :=
    existsb (fun e => match e with
                      | ESend _ m (RHttp st _ _) => is_tok_msg m && (st =? 401)%N
                      | _ => false
                      end) (phase_events id h).

  (* S3  what a token request asks for *)
  Definition evS3 (e : event) (h : hist) : bool :=
    match e with
    | ESend id m _ =>
        if negb (is_tok_msg m) then true
        else
          let asked := ParseScope (scope_text m) in
          match req_of id h with
          | None => false
          | Some q =>
              match before_phase id h with
              | EStart _ _ :: _ =>
                  Contains asked (q_required q) && (narrowed id h || Contains asked (q_want q))
              | EResume _ :: older =>
                  match last_reg id older with
                  | Some (_, r) =>
                      match challenge_of r with
                      | Some ch =>
                          let c := pget k_scope (ah_params ch) in
                          if narrowed id h then beqb (scope_text m) c
                          else Contains asked (ParseScope c) && Contains asked (q_required q)
                               && Contains asked (q_want q)
                               && (if Contains (ParseScope c) (Union (q_want q) (q_required q))
                                   then beqb (scope_text m) c else true)
                      | None => false
                      end
                  | None => false
                  end
              | _ => false
              end
          end
    | _ => true
    end.

  (* ---------- C11 ---------- *)

  Definition cfg_basic (host : bytes) : option (bytes * bytes) :=
    match e_cfg E host with
    | Some ce => if nonempty (ce_user ce) && nonempty (ce_pass ce) then Some (ce_user ce, ce_pass ce) else None
    | None => None
    end.

  Definition is_basic_ch (ch : auth_header) : bool := negb (beqb (ah_scheme ch) sch_bearer).
  Definition is_bearer_ch (ch : auth_header) : bool := beqb (ah_scheme ch) sch_bearer.

  (* token [t] belongs to [host]: configured for it, or issued to a call on it *)
  Definition token_of_host (host t : bytes) (h : hist) : bool :=
    match e_cfg E host with Some ce => nonempty t && beqb (ce_access ce) t | None => false end
    || existsb (fun i => on_host (i_id i) host h && beqb (i_tok i) t) (issues h).

  (* refresh token [t] belongs to [host] *)
  Definition refresh_of_host (host t : bytes) (h : hist) : bool :=
    match e_cfg E host with Some ce => beqb (ce_refresh ce) t | None => false end
    || existsb (fun i => on_host (i_id i) host h && beqb (i_refresh i) t) (issues h).

  (* P1  what reaches a registry host: the caller's request goes to the caller's host; the
     Authorization header is the caller's own, a token of that host, or - once that host has
     sent a Basic challenge - that host's own user name and password *)
  Definition evP1 (e : event) (h : hist) : bool :=
    match e with
    | ESend id (MReg host a) _ =>
        match req_of id h with
        | None => false
        | Some q =>
            beqb (q_host q) host
            && (authz_eqb a (q_auth q)
                || match a with
                   | ABearer t => token_of_host host t h
                   | ABasic u p =>
                       match cfg_basic host with
                       | Some (u', p') => beqb u u' && beqb p p' && named host is_basic_ch h
                       | None => false
                       end
                   | _ => false
                   end)
        end
    | _ => true
    end.

  (* P2  what reaches a token server: only a realm that the caller's host named in a Bearer
     challenge, and with it only that host's own secrets - its refresh token in the form of a
     POST (which carries no Authorization header), its user name and password as Basic auth of
     a GET; nothing else is attached *)
  Definition evP2 (e : event) (h : hist) : bool :=
    match e with
    | ESend id m _ =>
        match req_of id h with
        | None => negb (is_tok_msg m)
        | Some q =>
            let host := q_host q in
            match m with
            | MReg _ _ => true
            | MPost realm form a =>
                authz_eqb a ANone
                && named host (fun ch => is_bearer_ch ch && beqb (pget k_realm (ah_params ch)) realm) h
                && refresh_of_host host (pget k_refresh_token form) h
                && forallb (fun kv => mem_bytes (fst kv) [k_client_id; k_grant_type; k_refresh_token; k_scope; k_service]) form
            | MGet base query a =>
                named host (fun ch => is_bearer_ch ch
                                      && match e_purl E (pget k_realm (ah_params ch)) with
                                         | Some (b, _) => beqb b base
                                         | None => false
                                         end) h
                && match a with
                   | ANone => true
                   | ABasic u p => match cfg_basic host with
                                   | Some (u', p') => beqb u u' && beqb p p'
                                   | None => false
                                   end
                   | _ => false
                   end
            end
        end
    | _ => true
    end.

  Fixpoint returned (id : nat) (h : hist) : bool :=
    match h with
    | EReturn i _ :: h' => Nat.eqb i id || returned id h'
    | _ :: h' => returned id h'
    | [] => false
    end.

  (* the tokens handed out to call [id] itself, by a token request of ANY of its phases: the one
     made before its first attempt (a refresh token and a recorded challenge were at hand) as
     well as the one made in answer to the challenge *)
  Definition call_issues (id : nat) (h : hist) : list issue :=
    filter (fun i => Nat.eqb (i_id i) id) (issues h).

  (* P3  at most two attempts against the registry per call, none after the call returned;
     a call whose second attempt carried a token issued to this very call - on either path:
     before its first attempt or in answer to the challenge - and was answered 401 returns
     403 DENIED, and only such a call does *)
  Definition evP3 (e : event) (h : hist) : bool :=
    match e with
    | ESend id (MReg _ _) _ => (count_reg id h <=? 1)%nat && negb (returned id h)
    | EReturn id res =>
        negb (returned id h)
        && let denied_due :=
             (count_reg id h =? 2)%nat
             && match last_reg id h with
                | Some (ABearer t, RHttp st _ _) =>
                    (st =? 401)%N && existsb (fun i => beqb (i_tok i) t) (call_issues id h)
                | _ => false
                end in
           match res with
           | RetResp st denied =>
               if denied_due then (st =? 403)%N && denied
               else negb denied
                    && match last_reg id h with
                       | Some (_, RHttp st' _ _) => (st =? st')%N
                       | _ => false
                       end
           | RetErr _ => negb denied_due
           end
    | _ => true
    end.

  Fixpoint self_closed (id : nat) (h : hist) : bool :=
    match h with
    | ESelfClose i :: h' => Nat.eqb i id || self_closed id h'
    | _ :: h' => self_closed id h'
    | [] => false
    end.

  (* P4  when a call returns, its request body (if it has one) has been closed: by the
     transport itself, or it was handed to the underlying transport, which closes it *)
  Definition evP4 (e : event) (h : hist) : bool :=
    match e with
    | EReturn id _ =>
        match req_of id h with
        | Some q => negb (has_body (q_body q)) || self_closed id h || (1 <=? count_reg id h)%nat
        | None => false
        end
    | _ => true
    end.
End Spec.

(* ---------- C11, request bodies one by one ---------- *)

(* [count_ev p h]: how many events of [h] satisfy [p] *)
Definition count_ev (p : event -> bool) (h : hist) : nat := List.length (filter p h).

(* req.GetBody() was called by call [id] *)
Definition is_getbody (id : nat) (e : event) : bool :=
  match e with EGetBody i => Nat.eqb i id | _ => false end.

(* call [id] got rid of a request body: it handed it to the underlying transport with an attempt
   (which closes it), or the transport closed it itself *)
Definition is_disposal (id : nat) (e : event) : bool :=
  match e with
  | ESend i (MReg _ _) _ => Nat.eqb i id
  | ESelfClose i => Nat.eqb i id
  | _ => false
  end.

(* the request bodies call [id] has had in its hands: the one it was given, and one for every
   call of a GetBody that works (a failing GetBody returns none) *)
Definition bodies_given (id : nat) (q : request) (h : hist) : nat :=
  match q_body q with
  | BNone => 0
  | BPlain | BGetFail => 1
  | BGet => S (count_ev (is_getbody id) h)
  end.

(* P5  when a call returns, every request body it has had in its hands - the original AND every
   copy obtained from GetBody - has been handed over or closed: there are at least as many
   hand-overs and closes as bodies *)
Definition evP5 (e : event) (h : hist) : bool :=
  match e with
  | EReturn id _ =>
      match req_of id h with
      | Some q => (bodies_given id q h <=? count_ev (is_disposal id) h)%nat
      | None => false
      end
  | _ => true
  end.

(* ---------- the challenge parser: parameter names are case-insensitive (RFC 7235, 2.1) ---------- *)

(* no upper-case ASCII letter: the transport looks parameters up under their lower-case names
   (realm, service, scope) and compares the scheme with basic / bearer, so the parser has to hand
   out names and scheme in lower case whatever the header's spelling *)
Definition no_upper (a : bytes) : bool := forallb (fun c => negb ((65 <=? c)%N && (c <=? 90)%N)) a.

Definition parsed_lower (o : option (bytes * list (bytes * bytes))) : bool :=
  match o with
  | Some (sch, ps) => no_upper sch && forallb (fun kv => no_upper (fst kv)) ps
  | None => true
  end.

(* ---------- C11, token servers that redirect ---------- *)

(* What reaches the network when a token server answers a token request with a redirect and
   http.Client follows it: a chain of requests, the first of which is the token request itself
   (clause P2 speaks about that one: it goes to a realm the registry named).  The chain is given
   as it was observed ([hop]: message, host name of its URL, answer). *)

(* host name [h] is [site] itself or ends in a dot followed by [site]: the site's own name or a
   sub-domain of it *)
Definition in_site (h site : bytes) : bool := beqb h site || has_suffix (46%N :: site) h.

(* P6a  a request further down the chain carries no Authorization header, or the token request's
   own - the registry's user name and password - and then it goes to the host the challenge
   named or a sub-domain of it: the password never reaches a host that no challenge named *)
Definition p6a_hop (h0 h : hop) : bool :=
  let a := auth_of (hp_msg h) in
  authz_eqb a ANone || (authz_eqb a (auth_of (hp_msg h0)) && in_site (hp_host h) (hp_host h0)).

(* P6b  neither does the refresh token: a request further down the chain that has a form with a
   refresh token in it goes to the very host (URL.Host, port included) that the token request
   itself went to - the realm the challenge named *)
Definition p6b_hop (h0 h : hop) : bool :=
  match hp_msg h with
  | MPost _ f _ => is_nil (pget k_refresh_token f) || beqb (hp_hostport h) (hp_hostport h0)
  | _ => true
  end.

(* P6  both, for every request after the first; and the chain is bounded: ten requests at most *)
Definition evP6 (chain : list hop) : bool :=
  match chain with
  | [] => true
  | h0 :: rest => forallb (fun h => p6a_hop h0 h && p6b_hop h0 h) rest && (List.length chain <=? 10)%nat
  end.
