(* Model of ociregistry/ociserver, followed handler by handler:
     registry.go  New / ServeHTTP / v2 / handlePing / setLocationHeader /
                  handlerErrorForRequestParseError, the handler table
     reader.go    handleBlobHead / handleBlobGet / handleManifestGet / handleManifestHead
     writer.go    handleBlobUploadBlob / handleBlobStartUpload / handleBlobUploadInfo /
                  handleBlobUploadChunk / handleBlobCompleteUpload / handleBlobMount /
                  handleManifestPut / subjectFromManifest / locationForUploadID / chunkRange
     lister.go    handleTagsList / handleCatalogList / handleReferrersList / nextListResults /
                  makeNextLink
     deleter.go   handleBlobDelete / handleManifestDelete
     range.go     parseRange
     error.go     withHTTPCode / badAPIUseError (from Model/Errors.v)
   and of ociregistry.WriteError / MarshalError through Model/Errors.v [serve_error].

   The backend is an arbitrary function [bstep : B -> op -> B * bres] (a Section variable): any
   result for any call, including errors of any shape (a [gerr] tree), a panic, and iterators
   that fail after some items.  A result of a shape the Go types exclude (a reader answered to
   a Delete, say) is read through the [as_*] projections, which pick the zero value, so that
   no theorem needs a typing hypothesis.

   What is recorded: the trace [list ev] of backend calls with their results (BlobWriter
   methods are calls on the writer handle the backend returned), [ECloseR] for Close on a
   BlobReader, and [ELocs] for a call of Options.LocationsForDescriptor.

   The http.ResponseWriter is [rw]: headers set, the status of the first WriteHeader (later
   ones are ignored, headers set afterwards are not sent), body bytes.

   Oracles (Section variables; theorems quantify over them): which hashes are linked,
   digest.FromBytes, json.Unmarshal of the "subject" field, json.Marshal of the four response
   documents, http.Redirect's Location and body.  io.Copy(w, req.Body) is one Write of the
   whole body (none when the body is empty); reading the request body does not fail;
   Options.WriteError is the default (ociregistry.WriteError). *)
From Coq Require Import String.
From OCI Require Export Base.Outcome Model.Iface Model.Ref Model.Errors Model.Request.

(* ================================================================ backend vocabulary *)

Inductive bval :=
  | VDesc (d : desc)                           (* Resolve*, PushBlob, PushManifest, MountBlob, Commit *)
  | VRead (d : desc) (data : bytes)            (* a BlobReader: its Descriptor and what io.Copy reads from it *)
  | VList (l : list bytes) (e : option gerr)   (* a Seq[string]: items, then maybe an error *)
  | VDescs (l : list desc) (e : option gerr)   (* a Seq[Descriptor] *)
  | VWriter (w : wid)                          (* a BlobWriter *)
  | VN (n : Z)                                 (* Write count, Size, ChunkSize *)
  | VStr (i : bytes)                           (* ID *)
  | VUnit.                                     (* Delete*, Close, Cancel *)

Definition bres := R gerr bval.
Definition backend (B : Type) := B -> op -> B * bres.

Inductive ev :=
  | ECall (o : op) (r : bres)
  | ECloseR
  | ELocs (is_manifest : bool) (d : desc).

(* ---- an ociregistry.Interface model of Iface.v as a backend ---- *)
Definition gerr_of_err (e : err) : gerr :=
  match e_code e with
  | ENone => Plain (e_tag e)
  | ECustom c => Wire (W c (e_tag e) None)
  | BLOB_UNKNOWN => Wire (W (std_code SBlobUnknown) (e_tag e) None)
  | BLOB_UPLOAD_INVALID => Wire (W (std_code SBlobUploadInvalid) (e_tag e) None)
  | BLOB_UPLOAD_UNKNOWN => Wire (W (std_code SBlobUploadUnknown) (e_tag e) None)
  | DIGEST_INVALID => Wire (W (std_code SDigestInvalid) (e_tag e) None)
  | MANIFEST_BLOB_UNKNOWN => Wire (W (std_code SManifestBlobUnknown) (e_tag e) None)
  | MANIFEST_INVALID => Wire (W (std_code SManifestInvalid) (e_tag e) None)
  | MANIFEST_UNKNOWN => Wire (W (std_code SManifestUnknown) (e_tag e) None)
  | NAME_INVALID => Wire (W (std_code SNameInvalid) (e_tag e) None)
  | NAME_UNKNOWN => Wire (W (std_code SNameUnknown) (e_tag e) None)
  | SIZE_INVALID => Wire (W (std_code SSizeInvalid) (e_tag e) None)
  | UNAUTHORIZED => Wire (W (std_code SUnauthorized) (e_tag e) None)
  | DENIED => Wire (W (std_code SDenied) (e_tag e) None)
  | UNSUPPORTED => Wire (W (std_code SUnsupported) (e_tag e) None)
  | TOOMANYREQUESTS => Wire (W (std_code STooManyRequests) (e_tag e) None)
  | RANGE_INVALID => Wire (W (std_code SRangeInvalid) (e_tag e) None)
  end.

Definition bval_of_res (r : res) : bval :=
  match r with
  | RDesc d => VDesc d
  | RRead d data => VRead d data
  | RList l e => VList l (option_map gerr_of_err e)
  | RDescs l e => VDescs l (option_map gerr_of_err e)
  | RWriter w => VWriter w
  | RN n => VN n
  | RStr i => VStr i
  | RUnit => VUnit
  end.

Definition bres_of_result (r : result) : bres :=
  match r with
  | Ok v => Ok (bval_of_res v)
  | Err e => Err (gerr_of_err e)
  | Panic => Panic
  | OutOfFuel => OutOfFuel
  end.

Definition backend_of_registry {St} (step : registry St) : backend St :=
  fun st o => let '(st', r) := step st o in (st', bres_of_result r).

(* ---- Go-typed views of a result ----
   total projections of a value (the zero value where the shape is another one) *)
Definition desc_of (v : bval) : desc :=
  match v with VDesc d => d | VRead d _ => d | _ => zero_desc end.
Definition data_of (v : bval) : bytes :=
  match v with VRead _ data => data | _ => [] end.
Definition wid_of (v : bval) : wid :=
  match v with VWriter w => w | _ => 0%N end.
Definition n_of (v : bval) : Z :=
  match v with VN n => n | _ => 0%Z end.
Definition str_of (v : bval) : bytes :=
  match v with VStr i => i | _ => [] end.
Definition items_of (v : bval) : list bytes :=
  match v with VList l _ => l | _ => [] end.
Definition descs_of (v : bval) : list desc :=
  match v with VDescs l _ => l | _ => [] end.
Definition iter_err_of (v : bval) : option gerr :=
  match v with VList _ e => e | VDescs _ e => e | _ => None end.

(* (T, error) results *)
Definition as_val (r : bres) : R gerr bval := r.

Definition as_desc (r : bres) : R gerr desc :=
  match r with
  | Ok v => Ok (desc_of v)
  | Err e => Err e
  | Panic => Panic
  | OutOfFuel => OutOfFuel
  end.

Definition as_read (r : bres) : R gerr (desc * bytes) :=
  match r with
  | Ok v => Ok (desc_of v, data_of v)
  | Err e => Err e
  | Panic => Panic
  | OutOfFuel => OutOfFuel
  end.

Definition as_writer (r : bres) : R gerr wid :=
  match r with
  | Ok v => Ok (wid_of v)
  | Err e => Err e
  | Panic => Panic
  | OutOfFuel => OutOfFuel
  end.

Definition as_unit (r : bres) : R gerr unit :=
  match r with
  | Ok _ => Ok tt
  | Err e => Err e
  | Panic => Panic
  | OutOfFuel => OutOfFuel
  end.

(* methods without an error result: Size, ChunkSize (int64 / int), ID (string) *)
Definition as_n (r : bres) : R gerr Z :=
  match r with
  | Ok v => Ok (n_of v)
  | Err _ => Ok 0%Z
  | Panic => Panic
  | OutOfFuel => OutOfFuel
  end.

Definition as_str (r : bres) : R gerr bytes :=
  match r with
  | Ok v => Ok (str_of v)
  | Err _ => Ok []
  | Panic => Panic
  | OutOfFuel => OutOfFuel
  end.

(* iterators: the items, then maybe an error; a method that "returns an error" is an
   iterator that yields only that error *)
Definition as_list (r : bres) : R gerr (list bytes * option gerr) :=
  match r with
  | Ok v => Ok (items_of v, iter_err_of v)
  | Err e => Ok ([], Some e)
  | Panic => Panic
  | OutOfFuel => OutOfFuel
  end.

Definition as_descs (r : bres) : R gerr (list desc * option gerr) :=
  match r with
  | Ok v => Ok (descs_of v, iter_err_of v)
  | Err e => Ok ([], Some e)
  | Panic => Panic
  | OutOfFuel => OutOfFuel
  end.

(* ================================================================ options, request, response *)

Record opts := mkopts {
  o_disable_referrers : bool;          (* DisableReferrersAPI *)
  o_disable_single_post : bool;        (* DisableSinglePostUpload *)
  o_max_list_page_size : Z;            (* MaxListPageSize *)
  o_omit_digest_from_tag_get : bool;   (* OmitDigestFromTagGetResponse *)
  o_omit_link : bool;                  (* OmitLinkHeaderFromResponses *)
  o_locs : option (bool -> desc -> R gerr (list bytes))   (* LocationsForDescriptor *)
}.

(* what the handlers read of an *http.Request *)
Record hreq := mkhreq {
  hq_method : bytes;
  hq_path : bytes;          (* req.URL.Path (decoded) *)
  hq_rawquery : bytes;      (* req.URL.RawQuery *)
  hq_range : bytes;         (* req.Header.Get("Range") *)
  hq_crange : bytes;        (* req.Header.Get("Content-Range") *)
  hq_ctype : bytes;         (* req.Header.Get("Content-Type") *)
  hq_clen : Z;              (* req.ContentLength; -1 = unknown *)
  hq_body : bytes
}.

(* the documents the server marshals with encoding/json *)
Inductive jval :=
  | JTags (name : bytes) (tags : list bytes)
  | JCatalog (repos : list bytes)
  | JIndex (manifests : list desc)
  | JErr (w : werr).

Definition headers := list (bytes * bytes).

Fixpoint hget (k : bytes) (h : headers) : option bytes :=
  match h with
  | [] => None
  | (k', v) :: h' => if beqb k k' then Some v else hget k h'
  end.
Definition hset (k v : bytes) (h : headers) : headers :=
  (k, v) :: filter (fun kv => negb (beqb k (fst kv))) h.

Record rw := mkrw {
  w_hdrs : headers;
  w_status : option Z;       (* None = WriteHeader not called yet *)
  w_body : bytes;
  w_json : option jval       (* the document that was marshalled into the body, if any *)
}.

Definition rw0 : rw := mkrw [] None [] None.

Record hresp := mkresp {
  p_status : Z;
  p_hdrs : headers;
  p_body : bytes;
  p_json : option jval
}.

(* header names *)
(* header names in the canonical form net/http stores them under (textproto.CanonicalMIMEHeaderKey):
   the source writes Docker-Distribution-API-Version, OCI-Chunk-Min-Length, OCI-Subject *)
Definition H_api_version := s "Docker-Distribution-Api-Version".
Definition H_location := s "Location".
Definition H_dcd := s "Docker-Content-Digest".
Definition H_clen := s "Content-Length".
Definition H_ctype := s "Content-Type".
Definition H_accept_ranges := s "Accept-Ranges".
Definition H_range := s "Range".
Definition H_chunk_min := s "Oci-Chunk-Min-Length".
Definition H_crange := s "Content-Range".
Definition H_subject := s "Oci-Subject".
Definition H_link := s "Link".

Definition media_octet_stream := s "application/octet-stream".
Definition media_image_manifest := s "application/vnd.oci.image.manifest.v1+json".
Definition media_image_index := s "application/vnd.oci.image.index.v1+json".
Definition max_page_size : Z := 10000.

(* ================================================================ range.go *)

Definition is_ascii_space (b : N) : bool := (b =? 32) || (b =? 9) || (b =? 10) || (b =? 13).
Fixpoint trim_left (a : bytes) : bytes :=
  match a with
  | c :: r => if is_ascii_space c then trim_left r else a
  | [] => []
  end.
(* textproto.TrimString *)
Definition trim_string (a : bytes) : bytes := rev (trim_left (rev (trim_left a))).

(* one element of the comma-separated list: None = skipped (empty), Some (Err) = error *)
Definition parse_range_one (ra : bytes) : option (R unit (Z * Z)) :=
  let ra := trim_string ra in
  match ra with
  | [] => None
  | _ =>
      Some match cut_byte 45 ra with
      | None => Err tt
      | Some (start, end_) =>
          let start := trim_string start in
          let end_ := trim_string end_ in
          match start with
          | [] => Err tt           (* invalid, or end-relative range not supported *)
          | _ =>
              match parse_int start with
              | None => Err tt
              | Some i =>
                  if (i <? 0)%Z then Err tt
                  else match end_ with
                       | [] => Ok (i, (-1)%Z)
                       | _ => match parse_int end_ with
                              | None => Err tt
                              | Some j => if (j <? i)%Z then Err tt else Ok (i, wrap64 (j + 1))
                              end
                       end
              end
          end
      end
  end.

Fixpoint parse_range_list (l : list bytes) : R unit (list (Z * Z)) :=
  match l with
  | [] => Ok []
  | ra :: l' =>
      match parse_range_one ra with
      | None => parse_range_list l'
      | Some (Ok r) => match parse_range_list l' with
                       | Ok rs => Ok (r :: rs)
                       | other => other
                       end
      | Some _ => Err tt
      end
  end.

(* func parseRange(s string) ([]httpRange, error) *)
Definition parse_range_header (a : bytes) : R unit (list (Z * Z)) :=
  match a with
  | [] => Ok []
  | _ => if negb (has_prefix (s "bytes=") a) then Err tt
         else parse_range_list (split_byte 44 (skipn 6 a))
  end.

(* ================================================================ nextListResults *)

(* the yield callback over the items of the iterator: (items, truncated) *)
Fixpoint next_items (listn : Z) (l : list bytes) (items : list bytes) : list bytes * bool :=
  match l with
  | [] => (items, false)
  | it :: l' =>
      if ((0 <? listn) && (listn <=? Z.of_nat (length items)))%Z then (items, true)
      else next_items listn l' (items ++ [it])
  end.

Section Server.
  Variable linked : alg -> bool.
  Variable digest_of : bytes -> bytes.                       (* digest.FromBytes(data).String() *)
  Variable subject_of : bytes -> option (option bytes).      (* json.Unmarshal of {"subject":...}: None = error, else its digest if any *)
  Variable enc : jval -> bytes.                              (* json.Marshal *)
  Variable redirect : bytes -> bytes -> bytes * bytes.       (* http.Redirect: request path, url -> Location, body *)

  Variable B : Type.
  Variable bstep : backend B.
  Variable o : opts.

  Record hst := mkst { h_b : B; h_tr : list ev; (* most recent first *) h_w : rw }.

  Definition HR := R gerr unit.      (* what a handler returns: nil / an error / it panicked *)

  (* ---- primitive steps ---- *)
  Definition call (st : hst) (c : op) : hst * bres :=
    let '(b', r) := bstep (h_b st) c in
    (mkst b' (ECall c r :: h_tr st) (h_w st), r).

  Definition log (e : ev) (st : hst) : hst := mkst (h_b st) (e :: h_tr st) (h_w st).

  Definition upd_w (f : rw -> rw) (st : hst) : hst := mkst (h_b st) (h_tr st) (f (h_w st)).

  (* resp.Header().Set(k, v): no effect on what is sent once WriteHeader has been called *)
  Definition set_hdr (k v : bytes) (st : hst) : hst :=
    upd_w (fun w => match w_status w with
                    | None => mkrw (hset k v (w_hdrs w)) None (w_body w) (w_json w)
                    | Some _ => w
                    end) st.

  (* resp.WriteHeader(code): the first call counts *)
  Definition write_header (code : Z) (st : hst) : hst :=
    upd_w (fun w => match w_status w with
                    | None => mkrw (w_hdrs w) (Some code) (w_body w) (w_json w)
                    | Some _ => w
                    end) st.

  (* resp.Write(data): an implicit WriteHeader(200) *)
  Definition write_body (data : bytes) (j : option jval) (st : hst) : hst :=
    upd_w (fun w => mkrw (w_hdrs w) (w_status w) (w_body w ++ data)
                         (match j with Some _ => j | None => w_json w end))
          (write_header 200 st).

  (* ---- registry.go ---- *)

  (* handlerErrorForRequestParseError applied to &ParseError{e}; ParseError.Error() is the
     inner text and Unwrap gives the inner error: Wrap [] *)
  Definition handler_error_for_request_parse_error (e : perr) : gerr :=
    let err := Wrap [] (perr_gerr e) in
    match e with
    | PSentinel PNotFound => with_http_code 404 err
    | PSentinel PBadlyFormedDigest => with_http_code 400 err
    | PSentinel PMethodNotAllowed => with_http_code 405 err
    | PSentinel PBadRequest => with_http_code 400 err
    | _ => err
    end.

  (* setLocationHeader *)
  Definition set_location_header (st : hst) (is_manifest : bool) (d : desc) (default_loc : bytes)
    : hst * HR :=
    let '(st, loc) :=
      match o_locs o with
      | None => (st, Ok default_loc)
      | Some f =>
          let st := log (ELocs is_manifest d) st in
          (st, match f is_manifest d with
               | Ok locs => Ok (match locs with l0 :: _ => l0 | [] => default_loc end)
               | Err e => Err (Plain (s "cannot determine location: " ++ text go_sprefix go_cprefix e))
               | Panic => Panic
               | OutOfFuel => OutOfFuel
               end)
      end in
    match loc with
    | Ok loc => (set_hdr H_dcd (d_digest d) (set_hdr H_location loc st), Ok tt)
    | Err e => (st, Err e)
    | Panic => (st, Panic)
    | OutOfFuel => (st, OutOfFuel)
    end.

  (* locationForUploadID: MustConstruct of the upload-info request *)
  Definition location_for_upload_id (repo uploadID : bytes) : R gerr bytes :=
    match MustConstruct linked (mkreq ReqBlobUploadInfo repo [] [] [] uploadID 0 []) with
    | Ok (_, loc) => Ok loc
    | Err _ => Panic
    | Panic => Panic
    | OutOfFuel => OutOfFuel
    end.

  (* ---- reader.go ---- *)

  Definition handle_blob_head (st : hst) (rreq : request) : hst * HR :=
    let '(st, r) := call st (ResolveBlob (q_repo rreq) (q_digest rreq)) in
    match as_desc r with
    | Ok d =>
        let st := set_hdr H_clen (dec_Z (d_size d)) st in
        let st := set_hdr H_dcd (d_digest d) st in
        let st := set_hdr H_accept_ranges (s "bytes") st in
        (write_header 200 st, Ok tt)
    | Err e => (st, Err e)
    | Panic => (st, Panic)
    | OutOfFuel => (st, OutOfFuel)
    end.

  (* the part of handleBlobGet after the redirect block *)
  Definition handle_blob_get_body (st : hst) (req : hreq) (rreq : request) : hst * HR :=
    match parse_range_header (hq_range req) with
    | Ok [] =>
        let '(st, r) := call st (GetBlob (q_repo rreq) (q_digest rreq)) in
        match as_read r with
        | Ok (d, data) =>
            let st := set_hdr H_ctype (d_media d) st in
            let st := set_hdr H_clen (dec_Z (d_size d)) st in
            let st := set_hdr H_dcd (q_digest rreq) st in
            let st := write_header 200 st in
            let st := write_body data None st in
            (log ECloseR st, Ok tt)                     (* defer blob.Close() *)
        | Err e => (st, Err e)
        | Panic => (st, Panic)
        | OutOfFuel => (st, OutOfFuel)
        end
    | Ok [(start, end_)] =>
        let '(st, r) := call st (GetBlobRange (q_repo rreq) (q_digest rreq) start end_) in
        match as_read r with
        | Ok (d, data) =>
            let end_ := if ((end_ =? -1) || (d_size d <? end_))%Z then d_size d else end_ in
            if (d_size d <? start)%Z then
              (log ECloseR st, Err (with_http_code 416 (Plain (s "range starts after end of blob"))))
            else if (end_ <? start)%Z then
              (log ECloseR st, Err (with_http_code 416 (Plain (s "range end is before start"))))
            else
              let st := set_hdr H_ctype (d_media d) st in
              (* 0 <= start <= end_ here: neither difference can overflow *)
              let st := set_hdr H_clen (dec_Z (end_ - start)) st in
              let st := set_hdr H_dcd (q_digest rreq) st in
              let st := set_hdr H_crange (s "bytes " ++ dec_Z start ++ 45 :: dec_Z (end_ - 1)
                                          ++ 47 :: dec_Z (d_size d)) st in
              let st := write_header 206 st in
              let st := write_body data None st in
              (log ECloseR st, Ok tt)
        | Err e => (st, Err e)
        | Panic => (st, Panic)
        | OutOfFuel => (st, OutOfFuel)
        end
    | Ok _ => (st, Err (with_http_code 416 (Plain (s "only a single range is supported"))))
    | Err _ => (st, Err (with_http_code 416 (Plain (s "invalid range"))))
    | Panic => (st, Panic)
    | OutOfFuel => (st, OutOfFuel)
    end.

  Definition handle_blob_get (st : hst) (req : hreq) (rreq : request) : hst * HR :=
    match o_locs o with
    | None => handle_blob_get_body st req rreq
    | Some f =>
        let '(st, r) := call st (ResolveBlob (q_repo rreq) (q_digest rreq)) in
        match as_desc r with
        | Ok d =>
            let st := log (ELocs false d) st in
            match f false d with
            | Ok (l0 :: _) =>
                (* http.Redirect(resp, req, locs[0], http.StatusTemporaryRedirect) *)
                let '(loc, body) := redirect (hq_path req) l0 in
                let st := set_hdr H_location loc st in
                let st := match hget H_ctype (w_hdrs (h_w st)) with
                          | None => set_hdr H_ctype (s "text/html; charset=utf-8") st
                          | Some _ => st
                          end in
                let st := write_header 307 st in
                (write_body body None st, Ok tt)
            | Ok [] => handle_blob_get_body st req rreq
            | Err e => (st, Err e)
            | Panic => (st, Panic)
            | OutOfFuel => (st, OutOfFuel)
            end
        | Err e => (st, Err e)
        | Panic => (st, Panic)
        | OutOfFuel => (st, OutOfFuel)
        end
    end.

  Definition handle_manifest_get (st : hst) (rreq : request) : hst * HR :=
    let '(st, r) := match q_tag rreq with
                    | _ :: _ => call st (GetTag (q_repo rreq) (q_tag rreq))
                    | [] => call st (GetManifest (q_repo rreq) (q_digest rreq))
                    end in
    match as_read r with
    | Ok (d, data) =>
        let st := if negb (o_omit_digest_from_tag_get o) then set_hdr H_dcd (d_digest d) st else st in
        let st := set_hdr H_ctype (d_media d) st in
        let st := set_hdr H_clen (dec_Z (d_size d)) st in
        let st := write_header 200 st in
        let st := write_body data None st in
        (log ECloseR st, Ok tt)                         (* defer mr.Close() *)
    | Err e => (st, Err e)
    | Panic => (st, Panic)
    | OutOfFuel => (st, OutOfFuel)
    end.

  Definition handle_manifest_head (st : hst) (rreq : request) : hst * HR :=
    let has_tag := match q_tag rreq with [] => false | _ => true end in
    let '(st, r) := if has_tag then call st (ResolveTag (q_repo rreq) (q_tag rreq))
                    else call st (ResolveManifest (q_repo rreq) (q_digest rreq)) in
    match as_desc r with
    | Ok d =>
        let st := if negb (o_omit_digest_from_tag_get o) || has_tag
                  then set_hdr H_dcd (d_digest d) st else st in
        let st := set_hdr H_ctype (d_media d) st in
        let st := set_hdr H_clen (dec_Z (d_size d)) st in
        (write_header 200 st, Ok tt)
    | Err e => (st, Err e)
    | Panic => (st, Panic)
    | OutOfFuel => (st, OutOfFuel)
    end.

  (* ---- writer.go ---- *)

  (* chunkRange *)
  Definition chunk_range (req : hreq) : R gerr (Z * Z) :=
    let parsed : R gerr (Z * Z * bool) :=
      match hq_crange req with
      | [] => Ok (0, 0, false)%Z
      | cr => match parse_range cr with
              | Some (a, b) => Ok (a, b, true)
              | None => Err (bad_api_use_error (s "we don't understand your Content-Range"))
              end
      end in
    match parsed with
    | Ok (start, end_, range_ok) =>
        let clen := hq_clen req in
        if (range_ok && (0 <=? clen))%Z then
          let end_ := if ((start =? 0) && (end_ =? 0) && (clen =? 1))%Z then 1%Z else end_ in
          if negb (wrap64 (end_ - start) =? clen)%Z
          then Err (bad_api_use_error (s "Content-Range implies a length that is not Content-Length"))
          else Ok (start, end_)
        else if (negb range_ok && (0 <=? clen))%Z then Ok (start, clen)
        else Ok (start, end_)
    | Err e => Err e
    | Panic => Panic
    | OutOfFuel => OutOfFuel
    end.

  (* io.Copy(w, req.Body) *)
  Definition copy_body (st : hst) (w : wid) (body : bytes) : hst * HR :=
    match body with
    | [] => (st, Ok tt)
    | _ =>
        let '(st, r) := call st (WWrite w body) in
        match r with
        | Ok v => if (n_of v =? blen body)%Z then (st, Ok tt) else (st, Err (Plain (s "short write")))
        | Err e => (st, Err e)
        | Panic => (st, Panic)
        | OutOfFuel => (st, OutOfFuel)
        end
    end.

  (* defer w.Close(): runs when the handler returns and also while a panic unwinds; its
     result is dropped; a panic inside Close propagates *)
  Definition defer_close (w : wid) (x : hst * HR) : hst * HR :=
    let '(st, r) := x in
    match r with
    | OutOfFuel => (st, OutOfFuel)
    | _ =>
        let '(st, c) := call st (WClose w) in
        match c with
        | Panic => (st, Panic)
        | OutOfFuel => (st, OutOfFuel)
        | _ => (st, r)
        end
    end.

  (* Location from w.ID(), then [k] *)
  Definition with_upload_location (st : hst) (repo : bytes) (w : wid) (k : hst -> hst * HR) : hst * HR :=
    let '(st, rid) := call st (WID w) in
    match as_str rid with
    | Ok id =>
        match location_for_upload_id repo id with
        | Ok loc => k (set_hdr H_location loc st)
        | Err e => (st, Err e)
        | Panic => (st, Panic)
        | OutOfFuel => (st, OutOfFuel)
        end
    | Err e => (st, Err e)
    | Panic => (st, Panic)
    | OutOfFuel => (st, OutOfFuel)
    end.

  Definition handle_blob_start_upload (st : hst) (rreq : request) : hst * HR :=
    let '(st, r) := call st (PushBlobChunked (q_repo rreq) 0) in
    match as_writer r with
    | Ok w =>
        defer_close w
          (with_upload_location st (q_repo rreq) w (fun st =>
             let st := set_hdr H_range (s "0-0") st in
             let '(st, rc) := call st (WChunkSize w) in
             match as_n rc with
             | Ok n =>
                 let st := set_hdr H_chunk_min (dec_Z n) st in
                 (write_header 202 st, Ok tt)
             | Err e => (st, Err e)
             | Panic => (st, Panic)
             | OutOfFuel => (st, OutOfFuel)
             end))
    | Err e => (st, Err e)
    | Panic => (st, Panic)
    | OutOfFuel => (st, OutOfFuel)
    end.

  Definition handle_blob_upload_blob (st : hst) (req : hreq) (rreq : request) : hst * HR :=
    if o_disable_single_post o then handle_blob_start_upload st rreq
    else
      let de := {| d_media := media_octet_stream; d_digest := q_digest rreq;
                   d_size := hq_clen req; d_artifact := [] |} in
      let '(st, r) := call st (PushBlob (q_repo rreq) de (hq_body req)) in
      match as_desc r with
      | Ok d =>
          match set_location_header st false d (s "/v2/" ++ q_repo rreq ++ s "/blobs/" ++ d_digest d) with
          | (st, Ok _) => (write_header 201 st, Ok tt)
          | other => other
          end
      | Err e => (st, Err e)
      | Panic => (st, Panic)
      | OutOfFuel => (st, OutOfFuel)
      end.

  Definition handle_blob_upload_info (st : hst) (rreq : request) : hst * HR :=
    let '(st, r) := call st (PushBlobChunkedResume (q_repo rreq) (q_upload rreq) (-1) 0) in
    match as_writer r with
    | Ok w =>
        defer_close w
          (with_upload_location st (q_repo rreq) w (fun st =>
             let '(st, rs) := call st (WSize w) in
             match as_n rs with
             | Ok n =>
                 let st := set_hdr H_range (range_string 0 n) st in
                 (write_header 204 st, Ok tt)
             | Err e => (st, Err e)
             | Panic => (st, Panic)
             | OutOfFuel => (st, OutOfFuel)
             end))
    | Err e => (st, Err e)
    | Panic => (st, Panic)
    | OutOfFuel => (st, OutOfFuel)
    end.

  Definition handle_blob_upload_chunk (st : hst) (req : hreq) (rreq : request) : hst * HR :=
    match chunk_range req with
    | Ok (start, end_) =>
        let '(st, r) := call st (PushBlobChunkedResume (q_repo rreq) (q_upload rreq) start (wrap64 (end_ - start))) in
        match as_writer r with
        | Ok w =>
            match copy_body st w (hq_body req) with
            | (st, Err e) =>
                let '(st, c) := call st (WClose w) in
                match c with
                | Panic => (st, Panic)
                | OutOfFuel => (st, OutOfFuel)
                | _ => (st, Err (Wrap (s "cannot copy blob data: ") e))
                end
            | (st, Ok _) =>
                let '(st, c) := call st (WClose w) in
                match as_unit c with
                | Err e => (st, Err (Wrap (s "cannot close BlobWriter: ") e))
                | Ok _ =>
                    with_upload_location st (q_repo rreq) w (fun st =>
                      let '(st, rs) := call st (WSize w) in
                      match as_n rs with
                      | Ok n =>
                          let st := set_hdr H_range (range_string 0 n) st in
                          (write_header 202 st, Ok tt)
                      | Err e => (st, Err e)
                      | Panic => (st, Panic)
                      | OutOfFuel => (st, OutOfFuel)
                      end)
                | Panic => (st, Panic)
                | OutOfFuel => (st, OutOfFuel)
                end
            | other => other
            end
        | Err e => (st, Err e)
        | Panic => (st, Panic)
        | OutOfFuel => (st, OutOfFuel)
        end
    | Err e => (st, Err e)
    | Panic => (st, Panic)
    | OutOfFuel => (st, OutOfFuel)
    end.

  Definition handle_blob_complete_upload (st : hst) (req : hreq) (rreq : request) : hst * HR :=
    match chunk_range req with
    | Ok (start, end_) =>
        let '(st, r) := call st (PushBlobChunkedResume (q_repo rreq) (q_upload rreq) start (wrap64 (end_ - start))) in
        match as_writer r with
        | Ok w =>
            defer_close w
              match copy_body st w (hq_body req) with
              | (st, Err e) => (st, Err (Wrap (s "failed to copy data: ") e))
              | (st, Ok _) =>
                  let '(st, rc) := call st (WCommit w (q_digest rreq)) in
                  match as_desc rc with
                  | Ok d =>
                      match set_location_header st false d (s "/v2/" ++ q_repo rreq ++ s "/blobs/" ++ d_digest d) with
                      | (st, Ok _) => (write_header 201 st, Ok tt)
                      | other => other
                      end
                  | Err e => (st, Err e)
                  | Panic => (st, Panic)
                  | OutOfFuel => (st, OutOfFuel)
                  end
              | other => other
              end
        | Err e => (st, Err e)
        | Panic => (st, Panic)
        | OutOfFuel => (st, OutOfFuel)
        end
    | Err e => (st, Err e)
    | Panic => (st, Panic)
    | OutOfFuel => (st, OutOfFuel)
    end.

  Definition handle_blob_mount (st : hst) (rreq : request) : hst * HR :=
    let '(st, r) := call st (MountBlob (q_from rreq) (q_repo rreq) (q_digest rreq)) in
    match as_desc r with
    | Ok d =>
        match set_location_header st true d (s "/v2/" ++ q_repo rreq ++ s "/blobs/" ++ q_digest rreq) with
        | (st, Ok _) => (write_header 201 st, Ok tt)
        | other => other
        end
    | Err e => (st, Err e)
    | Panic => (st, Panic)
    | OutOfFuel => (st, OutOfFuel)
    end.

  (* subjectFromManifest *)
  Definition subject_from_manifest (content_type data : bytes) : option (option bytes) :=
    if beqb content_type media_image_manifest || beqb content_type media_image_index
    then subject_of data
    else Some None.

  Definition handle_manifest_put (st : hst) (req : hreq) (rreq : request) : hst * HR :=
    let media := match hq_ctype req with [] => media_octet_stream | m => m end in
    let data := hq_body req in
    let dig := digest_of data in
    let tag_ok : R gerr bytes :=
      match q_tag rreq with
      | _ :: _ => Ok (q_tag rreq)
      | [] => if negb (beqb (q_digest rreq) dig) then Err (std_err SDigestInvalid) else Ok []
      end in
    match tag_ok with
    | Ok tag =>
        match subject_from_manifest (hq_ctype req) data with
        | Some subject =>
            let '(st, r) := call st (PushManifest (q_repo rreq) tag data media) in
            match as_desc r with
            | Ok d =>
                match set_location_header st false d (s "/v2/" ++ q_repo rreq ++ s "/manifests/" ++ d_digest d) with
                | (st, Ok _) =>
                    let st := match subject with
                              | Some sd => set_hdr H_subject sd st
                              | None => st
                              end in
                    (write_header 201 st, Ok tt)
                | other => other
                end
            | Err e => (st, Err e)
            | Panic => (st, Panic)
            | OutOfFuel => (st, OutOfFuel)
            end
        | None => (st, Err (Plain (s "invalid manifest JSON")))
        end
    | Err e => (st, Err e)
    | Panic => (st, Panic)
    | OutOfFuel => (st, OutOfFuel)
    end.

  (* ---- deleter.go ---- *)

  Definition handle_blob_delete (st : hst) (rreq : request) : hst * HR :=
    let '(st, r) := call st (DeleteBlob (q_repo rreq) (q_digest rreq)) in
    match as_unit r with
    | Ok _ => (write_header 202 st, Ok tt)
    | other => (st, other)
    end.

  Definition handle_manifest_delete (st : hst) (rreq : request) : hst * HR :=
    let '(st, r) := match q_tag rreq with
                    | _ :: _ => call st (DeleteTag (q_repo rreq) (q_tag rreq))
                    | [] => call st (DeleteManifest (q_repo rreq) (q_digest rreq))
                    end in
    match as_unit r with
    | Ok _ => (write_header 202 st, Ok tt)
    | other => (st, other)
    end.

  (* ---- lister.go ---- *)

  (* makeNextLink *)
  Definition make_next_link (req : hreq) (start_after : bytes) : bytes :=
    let query := qset (s "last") start_after (fst (parse_query (hq_rawquery req))) in
    60 :: path_escape_mode (hq_path req) ++ 63 :: values_encode query ++ s ">;rel=""next""".

  (* nextListResults; the iterator has already been obtained (the argument is evaluated
     before the call).  Ok (items, link) *)
  Definition next_list_results (req : hreq) (rreq : request) (it : list bytes * option gerr)
    : R gerr (list bytes * bytes) :=
    if ((0 <? o_max_list_page_size o) && (o_max_list_page_size o <? q_listn rreq))%Z
    then Err (Wire (W (std_code SUnsupported) (s "query parameter n is too large") None))
    else
      let '(l, e) := it in
      let '(items, truncated) := next_items (q_listn rreq) l [] in
      match (if truncated then None else e) with
      | Some err => Err err
      | None =>
          if truncated && negb (o_omit_link o) then
            match rev items with
            | [] => Panic                                     (* items[len(items)-1] *)
            | last :: _ => Ok (items, make_next_link req last)
            end
          else Ok (items, [])
      end.

  Definition list_response (st : hst) (j : jval) (link : bytes) (ctype : option bytes) : hst * HR :=
    let msg := enc j in
    let st := match link with [] => st | _ => set_hdr H_link link st end in
    let st := set_hdr H_clen (dec_Z (blen msg)) st in
    let st := match ctype with Some c => set_hdr H_ctype c st | None => st end in
    let st := write_header 200 st in
    (write_body msg (Some j) st, Ok tt).

  Definition handle_tags_list (st : hst) (req : hreq) (rreq : request) : hst * HR :=
    let '(st, r) := call st (Tags (q_repo rreq) (q_last rreq)) in
    match as_list r with
    | Ok it =>
        match next_list_results req rreq it with
        | Ok (tags, link) => list_response st (JTags (q_repo rreq) tags) link None
        | Err e => (st, Err e)
        | Panic => (st, Panic)
        | OutOfFuel => (st, OutOfFuel)
        end
    | Err e => (st, Err e)
    | Panic => (st, Panic)
    | OutOfFuel => (st, OutOfFuel)
    end.

  Definition handle_catalog_list (st : hst) (req : hreq) (rreq : request) : hst * HR :=
    let '(st, r) := call st (Repositories (q_last rreq)) in
    match as_list r with
    | Ok it =>
        match next_list_results req rreq it with
        | Ok (repos, link) => list_response st (JCatalog repos) link None
        | Err e => (st, Err e)
        | Panic => (st, Panic)
        | OutOfFuel => (st, OutOfFuel)
        end
    | Err e => (st, Err e)
    | Panic => (st, Panic)
    | OutOfFuel => (st, OutOfFuel)
    end.

  Definition handle_referrers_list (st : hst) (rreq : request) : hst * HR :=
    if o_disable_referrers o
    then (st, Err (with_http_code 404 (Plain (s "referrers API has been disabled"))))
    else
      let '(st, r) := call st (Referrers (q_repo rreq) (q_digest rreq) []) in
      match as_descs r with
      | Ok (l, Some e) => (st, Err e)
      | Ok (l, None) => list_response st (JIndex l) [] (Some media_image_index)
      | Err e => (st, Err e)
      | Panic => (st, Panic)
      | OutOfFuel => (st, OutOfFuel)
      end.

  (* ---- the handler table and v2 ---- *)

  Definition dispatch (st : hst) (req : hreq) (rreq : request) : hst * HR :=
    match q_kind rreq with
    | ReqPing => (set_hdr H_api_version (s "registry/2.0") st, Ok tt)
    | ReqBlobGet => handle_blob_get st req rreq
    | ReqBlobHead => handle_blob_head st rreq
    | ReqBlobDelete => handle_blob_delete st rreq
    | ReqBlobStartUpload => handle_blob_start_upload st rreq
    | ReqBlobUploadBlob => handle_blob_upload_blob st req rreq
    | ReqBlobMount => handle_blob_mount st rreq
    | ReqBlobUploadInfo => handle_blob_upload_info st rreq
    | ReqBlobUploadChunk => handle_blob_upload_chunk st req rreq
    | ReqBlobCompleteUpload => handle_blob_complete_upload st req rreq
    | ReqManifestGet => handle_manifest_get st rreq
    | ReqManifestHead => handle_manifest_head st rreq
    | ReqManifestPut => handle_manifest_put st req rreq
    | ReqManifestDelete => handle_manifest_delete st rreq
    | ReqTagsList => handle_tags_list st req rreq
    | ReqReferrersList => handle_referrers_list st rreq
    | ReqCatalogList => handle_catalog_list st req rreq
    end.

  Definition v2 (st : hst) (req : hreq) : hst * HR :=
    match parse_req linked (hq_method req) (hq_path req) (hq_rawquery req) with
    | Ok rreq => dispatch st req rreq
    | Err e => (set_hdr H_api_version (s "registry/2.0") st, Err (handler_error_for_request_parse_error e))
    | Panic => (st, Panic)
    | OutOfFuel => (st, OutOfFuel)
    end.

  (* ociregistry.WriteError *)
  Definition write_error (e : gerr) (st : hst) : hst * R unit unit :=
    match serve_error go_sprefix go_cprefix e with
    | Ok wr =>
        let st := set_hdr H_ctype (s "application/json") st in
        let st := write_header (r_status wr) st in
        (write_body (enc (JErr (r_err wr))) (Some (JErr (r_err wr))) st, Ok tt)
    | Err _ => (st, Panic)
    | Panic => (st, Panic)
    | OutOfFuel => (st, OutOfFuel)
    end.

  Definition finish (w : rw) : hresp :=
    mkresp (match w_status w with Some c => c | None => 200%Z end) (w_hdrs w) (w_body w) (w_json w).

  (* ServeHTTP: final backend state, trace (oldest first), response or Panic *)
  Definition handle (b : B) (req : hreq) : B * list ev * R unit hresp :=
    let '(st, r) := v2 (mkst b [] rw0) req in
    match r with
    | Ok _ => (h_b st, rev (h_tr st), Ok (finish (h_w st)))
    | Err e =>
        let '(st, r') := write_error e st in
        (h_b st, rev (h_tr st),
         match r' with
         | Ok _ => Ok (finish (h_w st))
         | Err _ => Panic
         | Panic => Panic
         | OutOfFuel => OutOfFuel
         end)
    | Panic => (h_b st, rev (h_tr st), Panic)
    | OutOfFuel => (h_b st, rev (h_tr st), OutOfFuel)
    end.

End Server.

Arguments mkst {B}.
Arguments h_b {B}.
Arguments h_tr {B}.
Arguments h_w {B}.
