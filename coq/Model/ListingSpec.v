(* The specification side of C05's correspondence: what a stack description (Model/Listing.v,
   [stack]) is expected to list, read naively off its structure - as plain sets of names,
   with no iterators, pages or sorting - and whether the listing has to fail.  [obs_ok]
   (Obs/C05.v) judges the harness's observations against these. *)
From Coq Require Import String.
From OCI Require Export Model.Listing.

(* ---------------- well-formed descriptions (what the harness may build) ---------------- *)

Fixpoint nodupb (l : list bytes) : bool :=
  match l with
  | [] => true
  | a :: l' => negb (mem_bytes a l') && nodupb l'
  end.

Definition nonempty (a : bytes) : bool := match a with [] => false | _ => true end.

Definition mrepo_wfb (r : mrepo) : bool :=
  nodupb (mr_tags r) && nodupb (map fst (mr_manifests r)) && forallb nonempty (map fst (mr_manifests r)).

Definition err_wfb (xs : list bytes) (oe : option err) : bool :=
  match oe with
  | Some e => negb (ecode_eqb (e_code e) NAME_UNKNOWN) || match xs with [] => true | _ => false end
  | None => true
  end.

(* ---------------- naive semantics of a stack: which names, whether it must fail ---------------- *)

Definition strip_all (p : bytes) (l : list bytes) : list bytes :=
  flat_map (fun a => match cut_prefix p a with Some r => [r] | None => [] end) l.

(* Select lets a tag or referrer listing through for an allowed repository only *)
Definition select_passes (al : list bytes) (r : bytes) : bool := mem_bytes r al.

Fixpoint names (k : stack) (q : query) : list bytes :=
  match k with
  | KMem m =>
      match q with
      | QRepos => map fst m
      | QTags r => match mem_repo m r with Some repo => mr_tags repo | None => [] end
      | QRefs r d => match mem_repo m r with
                     | Some repo => map fst (filter (fun b => beqb (snd b) d) (mr_manifests repo))
                     | None => []
                     end
      end
  | KScript xs _ => xs
  | KFuncs => []
  | KHop _ _ i | KDebug i => names i q
  | KSelect al i =>
      match q with
      | QRepos => filter (fun r => mem_bytes r al) (names i q)
      | QTags r | QRefs r _ => if select_passes al r then names i q else []
      end
  | KSub p i =>
      match q with
      | QRepos => strip_all (p ++ slash) (names i QRepos)
      | QTags r => names i (QTags (sub_repo p r))
      | QRefs r d => names i (QRefs (sub_repo p r) d)
      end
  | KUnify a b => names a q ++ names b q
  end.

Inductive fclass := FNo | FNotFound | FErr.

Definition refuses (n : Z) (o : sopts) : bool :=
  (so_max o >? 0)%Z && (client_page_size n >? so_max o)%Z.

(* unify: a member that does not know the repository does not count, unless both do not *)
Definition fc_merge (f0 f1 : fclass) : fclass :=
  match f0, f1 with
  | FNotFound, f => f
  | f, FNotFound => f
  | FNo, FNo => FNo
  | _, _ => FErr
  end.

Fixpoint fails (k : stack) (q : query) : fclass :=
  match k with
  | KMem m =>
      match q with
      | QRepos => FNo
      | QTags r | QRefs r _ => match mem_repo m r with Some _ => FNo | None => FNotFound end
      end
  | KScript _ oe =>
      match oe with
      | None => FNo
      | Some e => if ecode_eqb (e_code e) NAME_UNKNOWN then FNotFound else FErr
      end
  | KFuncs => FErr                                     (* the unsupported error *)
  | KHop n o i =>
      match q with
      | QRefs _ _ => fails i q                       (* the referrers endpoint takes no page size *)
      | _ => if refuses n o then FErr else fails i q
      end
  | KDebug i => fails i q
  | KSelect al i =>
      match q with
      | QRepos => fails i q
      | QTags r | QRefs r _ => if select_passes al r then fails i q else FNotFound
      end
  | KSub p i =>
      match q with
      | QRepos => fails i QRepos
      | QTags r => fails i (QTags (sub_repo p r))
      | QRefs r d => fails i (QRefs (sub_repo p r) d)
      end
  | KUnify a b => fc_merge (fails a q) (fails b q)
  end.

Fixpoint stack_wfb (k : stack) : bool :=
  match k with
  | KMem m => nodupb (map fst m) && forallb (fun r => mrepo_wfb (snd r)) m
  | KScript xs oe => ascending xs && err_wfb xs oe && forallb nonempty xs
  | KFuncs => true
  | KHop n o i => (n >=? 0)%Z && stack_wfb i
  | KSelect _ i | KDebug i => stack_wfb i
  | KSub p i => negb (mem_bytes (p ++ slash) (names i QRepos)) && stack_wfb i
  | KUnify a b => stack_wfb a && stack_wfb b
  end.


(* the start point applies to repositories and tags; referrers are listed whole *)
Definition after (q : query) (start : bytes) (x : bytes) : bool :=
  match q with
  | QRefs _ _ => true
  | _ => bltb start x
  end.

