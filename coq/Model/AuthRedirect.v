(* Model of what registry.doTokenRequest (ociregistry/ociauth/auth.go) hands its request to:

       client := &http.Client{Transport: r.transport, CheckRedirect: func(next, via) error {...}}
       resp, err := client.Do(req)

   an http.Client without cookie jar or timeout whose CheckRedirect hook keeps net/http's default
   limit (at most ten requests) and refuses, with http.ErrUseLastResponse, to follow a redirect
   that would send the POST - the form with the refresh token - to a host other than the one the
   token request went to (the redirect response is then the token server's answer).  Model/Auth.v treats that exchange as one message and
   one answer ([do_token_request]: the answer is whatever Do returns).  This file opens it up:
   Client.do of net/http (Go 1.23.5, client.go), line by line, for the two requests
   acquireToken builds - the OAuth2 POST (form body from a strings.Reader, so GetBody is set;
   no Authorization header) and the GET (no body; Basic Authorization when the registry has a
   user name and password) - against a token server that may answer 301 / 302 / 303 / 307 / 308
   with a Location header, several times in a row.

   What is outside is an argument: [cnet], the underlying RoundTripper as seen from inside one
   Do (a function of everything sent so far and the request, giving the response and its
   Location header resolved against the request's URL by net/url: req.URL.Parse(loc), an oracle
   like [e_purl]).  Theorems (Proofs/AuthRedirect.v) quantify over it. *)
From Coq Require Import String ZArith.
From OCI Require Export Base.Outcome Model.Auth.

(* resp.Header.Get("Location") resolved by req.URL.Parse: the URL (String()), the same without
   its query, the query (url.Values, keys ascending), URL.Hostname() (no port) and URL.Host
   (with the port, if any) *)
Record target := { t_url : bytes; t_base : bytes; t_query : values; t_host : bytes; t_hostport : bytes }.

Inductive loc :=
  | LNone                (* no Location header *)
  | LBad                 (* one that does not parse *)
  | LTo (t : target).

(* a token request on the wire: the message, the host name of its URL (URL.Hostname()) and its
   URL.Host *)
Definition wire := (msg * bytes * bytes)%type.
Definition w_msg (w : wire) : msg := fst (fst w).
Definition w_host (w : wire) : bytes := snd (fst w).
Definition w_hostport (w : wire) : bytes := snd w.

Definition cnet := list wire -> msg -> bytes -> resp * loc.

Definition auth_of (m : msg) : authz :=
  match m with MReg _ a | MPost _ _ a | MGet _ _ a => a end.

Inductive meth := MethGet | MethPost.

Definition meth_of (m : msg) : meth := match m with MPost _ _ _ => MethPost | _ => MethGet end.

(* func isDomainOrSubdomain(sub, parent string) bool *)
Definition dom_or_sub (sub parent : bytes) : bool :=
  if beqb sub parent then true
  else if existsb (fun c => (c =? 58)%N || (c =? 37)%N) sub then false      (* strings.ContainsAny(sub, ":%") *)
  else if negb (has_suffix parent sub) then false
  else (nth (List.length sub - List.length parent - 1) sub 0 =? 46)%N.       (* sub[len(sub)-len(parent)-1] == '.' *)

(* func redirectBehavior(reqMethod string, resp *Response, ireq *Request)
     (redirectMethod string, shouldRedirect, includeBody bool)
   Some (redirectMethod, includeBody) when shouldRedirect.  301, 302, 303: GET and HEAD keep
   their method, everything else becomes GET, the body is dropped; 307, 308: same method, body
   re-sent (ireq.GetBody is set for the POST, the GET has no body, so the
   [ireq.GetBody == nil && ireq.outgoingLength() != 0] exit is never taken) *)
Definition redirect_behavior (reqMethod : meth) (status : N) : option (meth * bool) :=
  if (status =? 301)%N || (status =? 302)%N || (status =? 303)%N then Some (MethGet, false)
  else if (status =? 307)%N || (status =? 308)%N then Some (reqMethod, true)
  else None.

(* the next request hop:  req = &Request{Method: redirectMethod, URL: u, Header: make(Header), ...};
   the body again when includeBody (ireq.GetBody()); copyHeaders(req, stripSensitiveHeaders):
   the initial request's headers, without Authorization (and Www-Authenticate, Cookie, Cookie2)
   when stripSensitiveHeaders *)
Definition next_msg (first : msg) (redirectMethod : meth) (includeBody : bool) (t : target) (strip : bool) : msg :=
  let a := if strip then ANone else auth_of first in
  match redirectMethod, first with
  | MethPost, MPost _ form _ => MPost (t_url t) (if includeBody then form else []) a
  | _, _ => MGet (t_base t) (t_query t) a
  end.

Section Client.
  Variable net : cnet.

  (* the  for { ... }  of Client.do.  [fuel]: how many more requests the CheckRedirect hook
     allows (it refuses when len(via) >= 10); [first], [ihost], [ihp]: reqs[0], its host name
     and its URL.Host; [cur], [chost], [chp]: req; [strip]: stripSensitiveHeaders, which stays set once set
     (if !stripSensitiveHeaders && reqs[0].URL.Host != req.URL.Host, when
     !shouldCopyHeaderOnRedirect(reqs[0].URL, req.URL): equal URL.Host means equal host names,
     for which isDomainOrSubdomain says yes, so the first comparison adds nothing);
     [sent]: reqs, newest first.  The result is what Do returns - a response, or [RFail] for an
     error - and everything that was sent. *)
  Fixpoint do_loop (fuel : nat) (first : msg) (ihost ihp : bytes) (cur : msg) (chost chp : bytes) (strip : bool)
      (sent : list wire) : resp * list wire :=
    let sent1 := (cur, chost, chp) :: sent in              (* reqs = append(reqs, req) *)
    let '(r, l) := net sent cur chost in                   (* c.send(req, deadline) *)
    match r with
    | RFail => (RFail, sent1)                              (* return nil, uerr(err) *)
    | RHttp status _ _ =>
        match redirect_behavior (meth_of cur) status with
        | None => (r, sent1)                               (* !shouldRedirect: return resp, nil *)
        | Some (redirectMethod, includeBody) =>
            match l with
            | LNone => (r, sent1)                          (* loc == "": return resp, nil *)
            | LBad => (RFail, sent1)                       (* failed to parse Location header *)
            | LTo t =>
                (* c.checkRedirect(req, reqs): the hook of doTokenRequest *)
                match fuel with
                | O => (RFail, sent1)                      (* len(via) >= 10: stopped after 10 redirects *)
                | S fuel' =>
                    if (match redirectMethod with MethPost => true | MethGet => false end)
                       && negb (beqb (t_hostport t) ihp)
                    then (r, sent1)                        (* next.Method == "POST" && next.URL.Host != via[0].URL.Host:
                                                              http.ErrUseLastResponse: return resp, nil *)
                    else
                      let strip' := strip || negb (dom_or_sub (t_host t) ihost) in
                      do_loop fuel' first ihost ihp (next_msg first redirectMethod includeBody t strip')
                              (t_host t) (t_hostport t) strip' sent1
                end
            end
        end
    end.

  (* func (c *Client) do(req *Request) (retres *Response, reterr error) *)
  Definition client_do (m : msg) (host hostport : bytes) : resp * list wire :=
    do_loop 9 m host hostport m host hostport false [].
End Client.

(* ---------- what was observed of one Do ---------- *)

(* one request of the chain, as it reached the network, and the answer it got *)
Record hop := { hp_msg : msg; hp_host : bytes; hp_hostport : bytes; hp_resp : resp; hp_loc : loc }.

(* the network that answers as the observed chain was answered *)
Definition replay (chain : list hop) : cnet :=
  fun sent _ _ =>
    match nth_error chain (List.length sent) with
    | Some h => (hp_resp h, hp_loc h)
    | None => (RFail, LNone)
    end.

Definition wire_of (h : hop) : wire := (hp_msg h, hp_host h, hp_hostport h).
