(* Listings under a context that is cancelled (or whose deadline passes) while the consumer
   is being called (property C05: "an iteration either delivers the complete sequence or ends
   with an error, never a silently shortened list").

   The Go methods take a context.Context.  What the listing code does with it:

     ocimem                          ignores it
     ocifilter Select / Sub          hand it to the wrapped registry, the callback does not look at it
     ocidebug                        hands it on
     ociunify                        hands it to both members, and DRAINS both (ociregistry.All) inside
                                     the Repositories / Tags / Referrers call, before the first yield
     ociclient pager                 every page request is made with it (newRequest(ctx, ...), nextLink(ctx, ...)):
                                     c.do fails once the context is done, the error is yielded
     ociclient Referrers             one request, made inside the call
     ociserver                       lists with the context of the incoming request, not the client's

   A context is observable state that the CONSUMER changes (it cancels, or time passes, during
   a yield call) and that the iterator reads between yield calls.  In the model of push
   iterators (Base/Seq.v) the consumer's state S is threaded through every call, so the context
   is a predicate [d : S -> bool] on that state ("ctx.Err() != nil"): an iterator that takes a
   context is

     SeqC := forall S, (S -> bool) -> consumer S -> S -> S.

   The definitions below are the context-taking versions of those of Model/Listing.v whose Go
   code passes the context on or looks at it; they differ from them only by the argument [d]
   (and, for the pager, by the failing request).  Nothing in Model/Listing.v changes. *)
From Coq Require Import String.
From OCI Require Export Model.Listing.

Definition SeqC : Type := forall S : Type, (S -> bool) -> consumer err bytes S -> S -> S.

(* a listing whose code does not look at the context (after the call that made it) *)
Definition noctx (it : Seq err bytes) : SeqC := fun S _ y st => it S y st.

(* what c.do returns for a context that is done: a *url.Error around context.Canceled /
   context.DeadlineExceeded - no OCI error code *)
Definition ctx_error : err := E ENone (s "context").

Section ClientC.
  Variable wire : err -> err.

  (* pager: the for loop; c.do(req) with req made from ctx *)
  Fixpoint pager_loop_c (fuel : nat) (srv : wquery -> lresp) (initialN : Z) (req : wquery)
           (S : Type) (d : S -> bool) (y : consumer err bytes S) (st : S) : S * pstatus :=
    match fuel with
    | O => (st, POutOfFuel)
    | Datatypes.S fuel' =>
        if d st then (fst (y (inr ctx_error) st), PDone)             (* c.do fails: the context is done *)
        else
        match srv req with
        | LR_panic => (fst (y (inr transport_error) st), PDone)
        | LR_err e => (fst (y (inr (wire e)) st), PDone)
        | LR_ok items link =>
            let (s1, ok) := slice_loop items y st in
            if negb ok then (s1, PDone)
            else if (Z.of_nat (length items) <? initialN)%Z then (s1, PDone)
            else match last_opt items with
                 | None => (s1, PPanic)
                 | Some l => pager_loop_c fuel' srv initialN (nextLink link initialN l) S d y s1
                 end
        end
    end.

  Definition pager_c (fuel : nat) (srv : wquery -> lresp) (listPageSize : Z) (startAfter : bytes) : SeqC :=
    fun S d y st => fst (pager_loop_c fuel srv listPageSize (listParams listPageSize startAfter) S d y st).
End ClientC.

(* accessCheckerRegistry.Repositories with listAll (Select) *)
Definition ac_Repositories_c (check : bytes -> access -> option err) (listAll : bool)
           (backend : bytes -> SeqC) (startAfter : bytes) : SeqC :=
  match (if listAll then None else check star AccessList) with
  | Some e => noctx (ErrorSeq e)
  | None =>
      fun S d y st =>
        backend startAfter S d
          (fun v st =>
             match v with
             | inr e => (fst (y (inr e) st), false)
             | inl repo =>
                 match check repo AccessRead with
                 | Some _ => (st, true)
                 | None => y (inl repo) st
                 end
             end) st
  end.

Definition ac_Tags_c (check : bytes -> access -> option err)
           (backend : bytes -> bytes -> SeqC) (repo startAfter : bytes) : SeqC :=
  match check repo AccessList with
  | Some e => noctx (ErrorSeq e)
  | None => backend repo startAfter
  end.

Definition sub_Repositories_c (prefix : bytes) (backend : bytes -> SeqC) (startAfter : bytes) : SeqC :=
  let p := prefix ++ slash in
  fun S d y st =>
    backend (sub_start prefix startAfter) S d
      (fun v st =>
         match v with
         | inr e => (fst (y (inr e) st), false)
         | inl repo =>
             match cut_prefix p repo with
             | Some r => y (inl r) st
             | None => (st, true)
             end
         end) st.

(* logIterReturn: the callback's own variables ride along with the consumer's state; the
   context is the consumer's *)
Definition logIterReturn_c (it : SeqC) : SeqC :=
  fun S d y st =>
    fst (it (S * (list bytes * option err))%type
            (fun st => d (fst st))
            (fun v st =>
               let '(s0, (items, _err)) := st in
               match v with
               | inr e => let (s1, _) := y (inr e) s0 in ((s1, (items, Some e)), false)
               | inl item => let (s1, ok) := y (inl item) s0 in
                             ((s1, (if ok then items ++ [item] else items, _err)), ok)
               end)
            (st, ([], None))).

Record lister_c := {
  lc_repos : bytes -> SeqC;
  lc_tags : bytes -> bytes -> SeqC;
  lc_refs : bytes -> bytes -> SeqC
}.

Definition noctx_lister (l : lister) : lister_c :=
  {| lc_repos := fun st => noctx (l_repos l st);
     lc_tags := fun repo st => noctx (l_tags l repo st);
     lc_refs := fun repo dg => noctx (l_refs l repo dg) |}.

(* ociclient over ociserver over b: the server side runs with the request's own context, so
   the backend is the plain lister.  Referrers makes its single request inside the call. *)
Definition hop_lister_c (wire : err -> err) (fuel : nat) (listPageSize : Z) (o : sopts) (b : lister) : lister_c :=
  let n := client_page_size listPageSize in
  {| lc_repos := fun st => pager_c wire fuel (handleList o (l_repos b)) n st;
     lc_tags := fun repo st => pager_c wire fuel (handleList o (l_tags b repo)) n st;
     lc_refs := fun repo dg => noctx (client_Referrers wire (handleReferrers (l_refs b repo dg))) |}.

Definition ac_lister_c (check : bytes -> access -> option err) (listAll : bool) (b : lister_c) : lister_c :=
  {| lc_repos := ac_Repositories_c check listAll (lc_repos b);
     lc_tags := ac_Tags_c check (lc_tags b);
     lc_refs := ac_Tags_c check (lc_refs b) |}.

Definition sub_lister_c (prefix : bytes) (b : lister_c) : lister_c :=
  {| lc_repos := sub_Repositories_c prefix (lc_repos b);
     lc_tags := fun repo st => lc_tags b (sub_repo prefix repo) st;
     lc_refs := fun repo dg => lc_refs b (sub_repo prefix repo) dg |}.

Definition debug_lister_c (b : lister_c) : lister_c :=
  {| lc_repos := fun st => logIterReturn_c (lc_repos b st);
     lc_tags := fun repo st => logIterReturn_c (lc_tags b repo st);
     lc_refs := fun repo dg => logIterReturn_c (lc_refs b repo dg) |}.

(* a context that becomes done during the iteration: the leaves and ociunify (which has
   drained its members before the first yield) no longer look at it *)
Fixpoint interp_c (fuel : nat) (k : stack) : lister_c :=
  match k with
  | KHop n o i => hop_lister_c wire_id fuel n o (interp fuel i)
  | KSelect al i => ac_lister_c (select_check (fun r => mem_bytes r al)) true (interp_c fuel i)
  | KSub p i => sub_lister_c p (interp_c fuel i)
  | KDebug i => debug_lister_c (interp_c fuel i)
  | KMem _ | KScript _ _ | KFuncs | KUnify _ _ => noctx_lister (interp fuel k)
  end.

Definition ask_c (l : lister_c) (q : query) (start : bytes) : SeqC :=
  match q with
  | QRepos => lc_repos l start
  | QTags repo => lc_tags l repo start
  | QRefs repo dg => lc_refs l repo dg
  end.

Definition listing_c (k : stack) (q : query) (start : bytes) : SeqC :=
  ask_c (interp_c (stack_fuel k) k) q start.

(* the consumer that accepts everything and cancels the context during its j-th call
   (j >= 1): its state is the number of calls seen; the context is done from then on *)
Definition ctx_done (j : N) (c : N) : bool := (1 <=? j)%N && (j <=? c)%N.
Definition cancel_at (j : N) : consumer err bytes N := fun _ c => (N.succ c, true).

(* the log of yield calls under that consumer *)
Definition calls_c (it : SeqC) (j : N) : list (call err bytes) :=
  snd (it (N * list (call err bytes))%type (fun st => ctx_done j (fst st)) (logged (cancel_at j)) (0%N, [])).
