(* Finite protocol model of ociunify's concurrent read path
     ociregistry/ociunify/unify.go   runRead, runReadWithCancel, runReadConcurrent, t2.close
     ociregistry/ociunify/reader.go  runReadBlobReader, blobReader.Close, the five entry points
   as a transition system over small enumerations.  Threads: the caller's goroutine running the
   call (main), the two sender goroutines, the caller's goroutine running Close on the returned
   reader.  Shared objects: the unbuffered result channel c (a rendezvous between a sender at
   its select and main at one of its two selects), the done channel (a flag, closed by the
   deferred close), the caller's context (a flag), one derived context per member (created by
   the sender, done when its own cancel function was called or the caller's context is done),
   one reader per member (not handed out / open / closed / closed twice).
   Environment: the caller starts the call, cancels its context, uses the returned reader
   (Read - part of the content, or up to io.EOF / a read error - and Descriptor), closes it;
   a member's call returns when the environment lets it (a gate that is opened with the
   answer), or - for a member that only returns after its context is cancelled - when its
   context is done.
   Go's select chooses among ready cases: every ready case is a successor. *)
From OCI Require Export Base.Outcome.

Inductive mem := M0 | M1.
Inductive answer := Succ | Fail.

(* The five read entry points of reader.go that go through runReadWithCancel, and the two
   wrappers they use: runReadBlobReader (the cancel function travels with the returned reader)
   and runRead (cancel is called before returning).  GetTag and ResolveTag use both and are not
   part of this protocol. *)
Inductive entry := GetBlob | GetBlobRange | GetManifest | ResolveBlob | ResolveManifest.
Inductive style := Blob | Resolve.
Definition style_of (e : entry) : style :=
  match e with
  | GetBlob | GetBlobRange | GetManifest => Blob
  | ResolveBlob | ResolveManifest => Resolve
  end.

(* How a member's call comes back: when its gate is opened (with the answer), or only once its
   context is done (answer fixed in advance). *)
Inductive kind := Gated | OnCancel (a : answer).
Inductive gate := GShut | GOpen (a : answer).

(* sender goroutine:   sender := func(f, reg, i) {                                          *)
Inductive spc :=
  | S_idle      (* the go statement has not run yet                                        *)
  | S_new       (*   ctx, cancel := context.WithCancel(ctx)          - about to run        *)
  | S_call      (*   r := f(ctx, reg, i)                              - member call running *)
  | S_select    (*   select { case c <- result{r, cancel}: / case <-done:                  *)
  | S_dclose    (*       r.close()                                    - about to run        *)
  | S_dcancel   (*       cancel()                                     - about to run        *)
  | S_exit.     (* } returned                                                              *)

Inductive mret := NotRet | Ret (a : answer).
Inductive rdst := RdNone | RdOpen | RdClosed | RdTwice.

Record sender := mkSender {
  pc : spc;
  gt : gate;        (* environment: the member's gate                                       *)
  mr : mret;        (* r: what the member call returned                                     *)
  own : bool;       (* this sender's cancel function has been called                        *)
  rd : rdst;        (* the reader the member handed out (Blob style, successful answer)     *)
  rdead : bool;     (* ghost: the member's context was done when its call returned          *)
  early : bool      (* ghost: a method of the reader the member handed out (Close - by the
                       unifier for the member that was not chosen, by blobReader.Close for the
                       chosen one - or Read / Descriptor through the returned reader) was
                       called on the not yet closed reader while the member's context had
                       already been cancelled although the caller's context was live: the
                       unifier cancelled the context under a reader that was still open      *)
}.

(* main goroutine: runReadConcurrent, then the wrapper *)
Inductive mpc :=
  | M_idle                          (* the call has not been made                           *)
  | M_go0                           (* go sender(f, u.r0, 0)                                *)
  | M_go1                           (* go sender(f, u.r1, 1)                                *)
  | M_sel1                          (* select { case r := <-c: / case <-ctx.Done():         *)
  | M_got1 (i : mem) (a : answer)   (*   if r.r.error() == nil { return r.r, r.cancel }     *)
  | M_cancel1 (i : mem)             (*   r.cancel()                                         *)
  | M_sel2                          (* select { case r := <-c: return r.r, r.cancel / case <-ctx.Done(): return mkErr, noop *)
  | M_defer                         (* results set; deferred close(done) about to run       *)
  | M_wrap                          (* back in runRead / runReadBlobReader                  *)
  | M_returned.                     (* the entry point has returned to the caller           *)

(* what runReadConcurrent returns: the value and the cancel function *)
Inductive result := RNone | ROk (i : mem) | RErrM (i : mem) | RErrCtx.
Inductive cancelf := CNoop | CMem (i : mem).

(* the caller's goroutine in blobReader.Close:  defer r.cancel(); return r.BlobReader.Close() *)
Inductive clpc := Cl_none | Cl_inner | Cl_cancel | Cl_done.

Record state := mkState {
  st : style;
  kd0 : kind; kd1 : kind;
  cctx : bool;       (* the caller's context is done                                        *)
  main : mpc;
  res : result;
  cf : cancelf;
  done : bool;       (* close(done) has run                                                 *)
  sd0 : sender; sd1 : sender;
  cl : clpc
}.

Scheme Equality for mem.
Scheme Equality for answer.
Scheme Equality for style.
Scheme Equality for kind.
Scheme Equality for gate.
Scheme Equality for spc.
Scheme Equality for mret.
Scheme Equality for rdst.
Scheme Equality for sender.
Scheme Equality for mpc.
Scheme Equality for result.
Scheme Equality for cancelf.
Scheme Equality for clpc.
Scheme Equality for state.

(* ---------- accessors / updates ---------- *)

Definition sd (i : mem) (s : state) : sender := match i with M0 => sd0 s | M1 => sd1 s end.
Definition kd (i : mem) (s : state) : kind := match i with M0 => kd0 s | M1 => kd1 s end.
Definition other (i : mem) : mem := match i with M0 => M1 | M1 => M0 end.

Definition set_sd (i : mem) (x : sender) (s : state) : state :=
  match i with
  | M0 => mkState (st s) (kd0 s) (kd1 s) (cctx s) (main s) (res s) (cf s) (done s) x (sd1 s) (cl s)
  | M1 => mkState (st s) (kd0 s) (kd1 s) (cctx s) (main s) (res s) (cf s) (done s) (sd0 s) x (cl s)
  end.
Definition with_main (p : mpc) (s : state) : state :=
  mkState (st s) (kd0 s) (kd1 s) (cctx s) p (res s) (cf s) (done s) (sd0 s) (sd1 s) (cl s).
Definition with_ret (r : result) (c : cancelf) (s : state) : state :=
  mkState (st s) (kd0 s) (kd1 s) (cctx s) (main s) r c (done s) (sd0 s) (sd1 s) (cl s).
Definition with_done (s : state) : state :=
  mkState (st s) (kd0 s) (kd1 s) (cctx s) (main s) (res s) (cf s) true (sd0 s) (sd1 s) (cl s).
Definition with_cctx (s : state) : state :=
  mkState (st s) (kd0 s) (kd1 s) true (main s) (res s) (cf s) (done s) (sd0 s) (sd1 s) (cl s).
Definition with_cl (c : clpc) (s : state) : state :=
  mkState (st s) (kd0 s) (kd1 s) (cctx s) (main s) (res s) (cf s) (done s) (sd0 s) (sd1 s) c.

Definition with_pc (p : spc) (x : sender) : sender := mkSender p (gt x) (mr x) (own x) (rd x) (rdead x) (early x).
Definition with_gt (g : gate) (x : sender) : sender := mkSender (pc x) g (mr x) (own x) (rd x) (rdead x) (early x).
Definition with_own (x : sender) : sender := mkSender (pc x) (gt x) (mr x) true (rd x) (rdead x) (early x).
Definition with_rd (r : rdst) (x : sender) : sender := mkSender (pc x) (gt x) (mr x) (own x) r (rdead x) (early x).
Definition with_early (b : bool) (x : sender) : sender := mkSender (pc x) (gt x) (mr x) (own x) (rd x) (rdead x) b.

(* a derived context is done when its own cancel ran or its parent is done *)
Definition dead (i : mem) (s : state) : bool := cctx s || own (sd i s).

(* calling a cancel function *)
Definition call_cancel (c : cancelf) (s : state) : state :=
  match c with
  | CNoop => s
  | CMem i => set_sd i (with_own (sd i s)) s
  end.

(* A method of member i's reader starts (Close, Read, Descriptor ...): what the reader sees of
   the context of the call that opened it.  Sampled while the reader has not been closed: the
   context has been cancelled by the unifier (its own cancel function) while the caller's
   context is live. *)
Definition touch_rd (i : mem) (s : state) : state :=
  let x := sd i s in
  match rd x with
  | RdOpen => set_sd i (with_early (early x || (own x && negb (cctx s))) x) s
  | _ => s
  end.

(* Close on a member reader *)
Definition close_rd (r : rdst) : rdst :=
  match r with RdNone => RdNone | RdOpen => RdClosed | RdClosed => RdTwice | RdTwice => RdTwice end.

(* the member call of sender i returns answer a: r := f(ctx, reg, i) completes; a successful
   Blob-style answer carries an open reader *)
Definition member_return (i : mem) (a : answer) (s : state) : state :=
  let x := sd i s in
  set_sd i (mkSender S_select (gt x) (Ret a) (own x)
                     (match st s, a with Blob, Succ => RdOpen | _, _ => rd x end)
                     (dead i s) (early x)) s.

(* ---------- internal steps ---------- *)

(* main receives on c from a sender that is at its select: both move *)
Definition rendezvous (s : state) (k : mem -> answer -> state -> state) : list state :=
  flat_map (fun i =>
    match pc (sd i s), mr (sd i s) with
    | S_select, Ret a => [k i a (set_sd i (with_pc S_exit (sd i s)) s)]
    | _, _ => []
    end) [M0; M1].

Definition return_with (r : result) (c : cancelf) (s : state) : state :=
  with_main M_defer (with_ret r c s).

Definition ctx_case (s : state) : list state :=
  if cctx s then [return_with RErrCtx CNoop s] else [].

Definition main_steps (s : state) : list state :=
  match main s with
  | M_idle => []
  | M_go0 => [with_main M_go1 (set_sd M0 (with_pc S_new (sd0 s)) s)]
  | M_go1 => [with_main M_sel1 (set_sd M1 (with_pc S_new (sd1 s)) s)]
  | M_sel1 => rendezvous s (fun i a s' => with_main (M_got1 i a) s') ++ ctx_case s
  | M_got1 i Succ => [return_with (ROk i) (CMem i) s]
  | M_got1 i Fail => [with_main (M_cancel1 i) s]
  | M_cancel1 i => [with_main M_sel2 (call_cancel (CMem i) s)]
  | M_sel2 =>
      rendezvous s (fun j a s' => return_with (match a with Succ => ROk j | Fail => RErrM j end) (CMem j) s')
      ++ ctx_case s
  | M_defer => [with_main M_wrap (with_done s)]
  | M_wrap =>
      match st s, res s with
      | Blob, ROk _ => [with_main M_returned s]                         (* return blobReader{r, cancel}, nil *)
      | _, _ => [with_main M_returned (call_cancel (cf s) s)]           (* cancel(); return *)
      end
  | M_returned => []
  end.

Definition sender_steps (i : mem) (s : state) : list state :=
  let x := sd i s in
  match pc x with
  | S_idle => []
  | S_new => [set_sd i (with_pc S_call x) s]
  | S_call =>
      match kd i s with
      | Gated => match gt x with GOpen a => [member_return i a s] | GShut => [] end
      | OnCancel a => if dead i s then [member_return i a s] else []
      end
  | S_select => if done s then [set_sd i (with_pc S_dclose x) s] else []
  | S_dclose =>
      (* r.close(): the member reader's Close starts (it sees its context), then closes *)
      let s1 := touch_rd i s in
      let x1 := sd i s1 in
      [set_sd i (with_pc S_dcancel (with_rd (close_rd (rd x1)) x1)) s1]
  | S_dcancel => [set_sd i (with_pc S_exit (with_own x)) s]
  | S_exit => []
  end.

Definition close_steps (s : state) : list state :=
  match cl s with
  | Cl_inner =>
      match res s with
      | ROk j =>
          (* r.BlobReader.Close(): the member reader's Close starts (it sees its context) ... *)
          let s1 := touch_rd j s in
          [with_cl Cl_cancel (set_sd j (with_rd (close_rd (rd (sd j s1))) (sd j s1)) s1)]
      | _ => [with_cl Cl_cancel s]
      end
  | Cl_cancel => [with_cl Cl_done (call_cancel (cf s) s)]
  | Cl_none | Cl_done => []
  end.

Definition istep (s : state) : list state :=
  main_steps s ++ sender_steps M0 s ++ sender_steps M1 s ++ close_steps s.

Definition quiescent (s : state) : bool := match istep s with [] => true | _ => false end.

(* ---------- environment steps ---------- *)

(* What the caller does with the returned reader before closing it.  blobReader embeds the
   member's ociregistry.BlobReader and defines Close only, so Read and Descriptor are the
   member reader's own methods: none of them is a step of the protocol (no context, reader or
   goroutine changes), whether the Read delivers bytes, io.EOF or an error.  The member's reader
   sees the context of the call that opened it when the method starts (touch_rd): in every
   reachable state that context is live unless the caller's is done, so the step changes
   nothing (Proofs: use_neutral). *)
Inductive use := UPartial | UDrain | UDesc.

Inductive ev := EStart | ERet (i : mem) (a : answer) | ECancel | EClose | EUse (u : use).

Definition estep (e : ev) (s : state) : option state :=
  match e with
  | EStart => match main s with M_idle => Some (with_main M_go0 s) | _ => None end
  | ERet i a =>
      match kd i s, gt (sd i s) with
      | Gated, GShut => Some (set_sd i (with_gt (GOpen a) (sd i s)) s)
      | _, _ => None
      end
  | ECancel => if cctx s then None else Some (with_cctx s)
  | EClose =>
      match main s, st s, res s, cl s with
      | M_returned, Blob, ROk _, Cl_none => Some (with_cl Cl_inner s)
      | _, _, _, _ => None
      end
  | EUse _ =>
      (* possible while the caller holds the returned reader; leaves every component alone *)
      match main s, st s, res s, cl s with
      | M_returned, Blob, ROk j, Cl_none => Some (touch_rd j s)
      | _, _, _, _ => None
      end
  end.

Definition all_events : list ev :=
  [EStart; ERet M0 Succ; ERet M0 Fail; ERet M1 Succ; ERet M1 Fail; ECancel; EClose;
   EUse UPartial; EUse UDrain; EUse UDesc].

Definition env_steps (s : state) : list state :=
  flat_map (fun e => match estep e s with Some s' => [s'] | None => [] end) all_events.

Definition step (s : state) : list state := istep s ++ env_steps s.

(* an event that is not enabled leaves the state alone (harness: the action is skipped) *)
Definition apply_ev (e : ev) (s : state) : state :=
  match estep e s with Some s' => s' | None => s end.

(* ---------- initial states: every configuration ---------- *)

Definition sender0 : sender := mkSender S_idle GShut NotRet false RdNone false false.

Definition init (y : style) (k0 k1 : kind) : state :=
  mkState y k0 k1 false M_idle RNone CNoop false sender0 sender0 Cl_none.

Definition all_kinds : list kind := [Gated; OnCancel Succ; OnCancel Fail].
Definition inits : list state :=
  flat_map (fun y => flat_map (fun k0 => map (fun k1 => init y k0 k1) all_kinds) all_kinds) [Blob; Resolve].

(* ---------- reachable set, computed by a fuelled breadth-first search ---------- *)

Definition memb (s : state) (l : list state) : bool := existsb (state_beq s) l.

Definition add_new (seen acc : list state) (s : state) : list state :=
  if memb s acc || memb s seen then acc else s :: acc.

Fixpoint bfs (fuel : nat) (front seen : list state) : list state :=
  match fuel with
  | O => seen
  | S f =>
      match fold_left (add_new seen) (flat_map step front) [] with
      | [] => seen
      | nxt => bfs f nxt (nxt ++ seen)
      end
  end.

(* ---------- rank: bounds the number of internal steps ---------- *)

Definition rank_spc (p : spc) : nat :=
  match p with
  | S_idle => 6 | S_new => 5 | S_call => 4 | S_select => 3 | S_dclose => 2 | S_dcancel => 1 | S_exit => 0
  end%nat.
Definition rank_mpc (p : mpc) : nat :=
  match p with
  | M_idle => 9 | M_go0 => 8 | M_go1 => 7 | M_sel1 => 6 | M_got1 _ _ => 5 | M_cancel1 _ => 4
  | M_sel2 => 3 | M_defer => 2 | M_wrap => 1 | M_returned => 0
  end%nat.
Definition rank_cl (c : clpc) : nat :=
  match c with Cl_none => 3 | Cl_inner => 2 | Cl_cancel => 1 | Cl_done => 0 end%nat.
Definition rank (s : state) : nat :=
  (rank_mpc (main s) + rank_spc (pc (sd0 s)) + rank_spc (pc (sd1 s)) + rank_cl (cl s))%nat.

(* ---------- what an observer sees in a state ---------- *)

Record msnap := mkMsnap {
  ms_started : bool;   (* the member call was made                                          *)
  ms_ret : mret;       (* it returned, with which answer                                    *)
  ms_rdead : bool;     (* its context was done at the moment it returned                    *)
  ms_dead : bool;      (* its context is done now                                           *)
  ms_rd : rdst;        (* the reader it handed out: none / open / closed / closed twice     *)
  ms_timer : bool;     (* the context it was given carries a deadline (a timer) that the
                          caller's context does not have: it can end without the caller
                          cancelling and without the unifier's cancel being called            *)
  ms_early : bool      (* at the start of some method of the reader it handed out (Close above
                          all; Read, Descriptor ...), the reader not yet closed, its context
                          was already cancelled while the caller's context was live            *)
}.

Record snapshot := mkSnap {
  o_quiet : bool;      (* every goroutine is blocked or gone                                *)
  o_started : bool;    (* the caller made the call                                          *)
  o_cancelled : bool;  (* the caller cancelled its context                                  *)
  o_closed : bool;     (* the caller's Close on the returned reader has completed           *)
  o_res : option result;   (* Some RNone: not returned yet; None: something else (panic ...) *)
  o_m0 : msnap; o_m1 : msnap;
  o_live : N;          (* goroutines alive: the call, the senders, the Close call           *)
  o_inmem : N          (* of these, inside a member call                                    *)
}.

Definition msnap_of (i : mem) (s : state) : msnap :=
  let x := sd i s in
  let started := match pc x with S_idle | S_new => false | _ => true end in
  (* context.WithCancel: the derived context ends by its own cancel or with the caller's, never by
     a timer of its own *)
  mkMsnap started (mr x) (rdead x) (started && dead i s) (rd x) false (early x).

Definition b2n (b : bool) : N := if b then 1 else 0.

Definition live_spc (p : spc) : bool := match p with S_idle | S_exit => false | _ => true end.
Definition in_call (p : spc) : bool := match p with S_call => true | _ => false end.

Definition snap (s : state) : snapshot :=
  mkSnap (quiescent s)
         (match main s with M_idle => false | _ => true end)
         (cctx s)
         (match cl s with Cl_done => true | _ => false end)
         (Some (match main s with M_returned => res s | _ => RNone end))
         (msnap_of M0 s) (msnap_of M1 s)
         (b2n (match main s with M_idle | M_returned => false | _ => true end)
          + b2n (live_spc (pc (sd0 s))) + b2n (live_spc (pc (sd1 s)))
          + b2n (match cl s with Cl_inner | Cl_cancel => true | _ => false end))
         (b2n (in_call (pc (sd0 s))) + b2n (in_call (pc (sd1 s)))).

Scheme Equality for msnap.

(* ---------- running a schedule the way the harness does ---------- *)

Fixpoint dedup (l : list state) : list state :=
  match l with
  | [] => []
  | s :: r => let r' := dedup r in if memb s r' then r' else s :: r'
  end.

(* every state reachable by internal steps from the front (the front included) *)
Fixpoint closure (fuel : nat) (front : list state) : list state :=
  match fuel with
  | O => front
  | S f =>
      match dedup (flat_map istep front) with
      | [] => front
      | nxt => front ++ closure f nxt
      end
  end.

(* the quiescent ones among them *)
Definition settle (fuel : nat) (front : list state) : list state :=
  dedup (filter quiescent (closure fuel front)).

(* A schedule is a list of (event, wait): the harness performs the event - at whatever point
   the goroutines have got to - and, when wait is set, lets everything run until all
   goroutines are blocked or gone and records a snapshot.  The result is every snapshot list
   the model can produce. *)
Fixpoint run (fuel : nat) (evs : list (ev * bool)) (front : list state) : list (list snapshot) :=
  match evs with
  | [] => [[]]
  | (e, false) :: r => run fuel r (dedup (map (apply_ev e) (closure fuel front)))
  | (e, true) :: r =>
      flat_map (fun q => map (cons (snap q)) (run fuel r [q]))
               (settle fuel (dedup (map (apply_ev e) (closure fuel front))))
  end.

Definition run_fuel : nat := 40%nat.

(* boolean equality on snapshots (used to compare an observation with the model's) *)
Definition snapshot_eqb (a b : snapshot) : bool :=
  Bool.eqb (o_quiet a) (o_quiet b) && Bool.eqb (o_started a) (o_started b)
  && Bool.eqb (o_cancelled a) (o_cancelled b) && Bool.eqb (o_closed a) (o_closed b)
  && option_eqb result_beq (o_res a) (o_res b)
  && msnap_beq (o_m0 a) (o_m0 b) && msnap_beq (o_m1 a) (o_m1 b)
  && N.eqb (o_live a) (o_live b) && N.eqb (o_inmem a) (o_inmem b).
