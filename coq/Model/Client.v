(* Model of ociregistry/ociclient, followed line by line and parametric in the server:

     client.go   New (page size default), descriptorFromResponse, blobReader (newBlobReader,
                 Read), doRequest, do, locationFromResponse, isOKStatus, newRequest
     reader.go   GetBlob, GetBlobRange, ResolveBlob, ResolveManifest, ResolveTag, resolve,
                 GetManifest, GetTag, read (in-memory digest / HEAD fallback for a large manifest)
     writer.go   PushManifest, MountBlob, PushBlob, PushBlobChunked, PushBlobChunkedResume,
                 blobWriter (Write, flush, concatBody, Close, Size, ChunkSize, Commit, Cancel),
                 urlWithDigest (symbolic), chunkSizeFromResponse
     lister.go   Repositories, Tags, Referrers, pager, nextLink
     deleter.go  DeleteBlob, DeleteManifest, DeleteTag, delete
     error.go    makeError (the body read with its 8 KiB + 1 limit; makeError1 is Model/Errors.v)

   Every method is a function [world -> world * result] over the transport of Model/Http.v
   ([http_do]: net/http's redirect loop over an arbitrary stateful server).  The panic sites
   are explicit [Panic] results:
     - items[len(items)-1] in the pager                         ([last_item])
     - Digest.Algorithm() on a digest without ':'               ([algorithm_of])
     - Algorithm.Hash() on an algorithm that is not available   ([hash_new])
     - make([]byte, 0, chunkSize) with an absurd chunkSize      ([alloc_chunk], old tree only)
   What Go library code decides is an oracle in [env]: net/url parsing, ocirequest.Construct's
   validation of the arguments, digest validation and hashing, mime and JSON decoding.
   Error prose is not modelled: a [Plain] error carries a short tag naming its site.

   [build] selects between the tree as it is now ([current]) and the tree before the three
   ociclient fixes ([before_fixes]); the old behaviours are kept for their refutations. *)
From Coq Require Import String.
From OCI Require Export Base.Outcome Model.Http.
From OCI Require Import Model.Iface Model.Errors.

Local Open Scope Z_scope.

(* ---------------------------------------------------------------- oracles *)

Record env := {
  e_construct_ok : rreq -> bool;          (* Request.Construct returns no error *)
  e_url_ok : bytes -> bool;               (* url.Parse succeeds *)
  e_url_rooted : bytes -> bool;           (* the parsed URL's Path starts with "/" *)
  e_valid_digest : bytes -> bool;         (* ociref.IsValidDigest *)
  e_available : bytes -> bool;            (* digest.Algorithm.Available *)
  e_hashhex : bytes -> bytes -> bytes;    (* algorithm, data: hex of the hash *)
  e_media : bytes -> bytes;               (* mime.ParseMediaType: the media type *)
  e_json_errors : bytes -> option (list werr);      (* json.Unmarshal into WireErrors *)
  e_json_names : bool -> bytes -> option (list bytes);  (* false: "repositories", true: "tags" *)
  e_json_index : bytes -> option (list desc)            (* ocispec.Index.Manifests *)
}.

(* which tree *)
Record build := {
  b_page_default_le0 : bool;       (* New defaults ListPageSize when <= 0 (before: == 0) *)
  b_known_digest_checked : bool;   (* descriptorFromResponse validates the caller's digest *)
  b_prealloc_capped : bool         (* Write allocates min(chunkSize, defaultChunkSize) *)
}.
Definition current : build :=
  {| b_page_default_le0 := true; b_known_digest_checked := true; b_prealloc_capped := true |}.
Definition before_fixes : build :=
  {| b_page_default_le0 := false; b_known_digest_checked := false; b_prealloc_capped := false |}.

(* ---------------------------------------------------------------- small helpers *)

Definition blenZ (b : bytes) : Z := Z.of_nat (length b).

(* strings.LastIndex(s, c) split: (s[:i], s[i+1:]) *)
Definition cut_last (c : N) (l : bytes) : option (bytes * bytes) :=
  match cut_byte c (rev l) with
  | None => None
  | Some (a, b) => Some (rev b, rev a)
  end.

Definition is_empty (b : bytes) : bool := match b with [] => true | _ => false end.

Definition h_content_type : bytes := s "Content-Type".
Definition h_content_range : bytes := s "Content-Range".
Definition h_digest : bytes := s "Docker-Content-Digest".
Definition h_range : bytes := s "Range".
Definition h_link : bytes := s "Link".
Definition h_accept : bytes := s "Accept".
Definition h_chunk_min : bytes := s "Oci-Chunk-Min-Length".
Definition octet_stream : bytes := s "application/octet-stream".
Definition sha256_name : bytes := s "sha256".

(* isOKStatus / resp.StatusCode/100 == 2 (Go's division truncates toward zero) *)
Definition is_ok_status (st : Z) : bool := Z.quot st 100 =? 2.

(* ---------------------------------------------------------------- results that are not errors *)

(* how a Read ended *)
Inductive rend :=
  | RdMore                 (* err == nil *)
  | RdEOF                  (* io.EOF *)
  | RdErr (e : gerr).

(* where a blobReader reads from: a response body (log index) or a bytes.Reader in memory *)
Record source := { src_idx : option nat; src_rest : bytes; src_fail : bool }.

Record blob_reader := {
  br_src : source;
  br_n : Z;
  br_alg : bytes;          (* desc.Digest.Algorithm() *)
  br_seen : bytes;         (* everything written to the digester *)
  br_desc : desc;
  br_verify : bool
}.

Record writer := {
  wr_chunk_size : Z;
  wr_closed : bool;
  wr_chunk : option bytes;       (* None = nil slice *)
  wr_close_err : option gerr;
  wr_size : Z;
  wr_flushed : Z;
  wr_location : url
}.

(* what the iterator of a listing did *)
Inductive pend := PDone | PPanic | PFuel.

(* operations on a BlobWriter, and what each returned *)
Inductive wop :=
  | WoWrite (data : bytes) | WoClose | WoCommit (d : bytes) | WoSize | WoChunkSize | WoCancel.
Inductive wres :=
  | WrInt (r : R gerr Z)        (* Write: n; Close / Cancel: 0; Size; ChunkSize *)
  | WrDesc (r : R gerr desc).   (* Commit *)

(* one call of a client method with everything the caller does with the result *)
Inductive call :=
  | CGetBlob (repo dig : bytes) (bufsz : nat)
  | CGetBlobRange (repo dig : bytes) (o0 o1 : Z) (bufsz : nat)
  | CGetManifest (repo dig : bytes) (bufsz : nat)
  | CGetTag (repo tag : bytes) (bufsz : nat)
  | CResolveBlob (repo dig : bytes)
  | CResolveManifest (repo dig : bytes)
  | CResolveTag (repo tag : bytes)
  | CPushBlob (repo : bytes) (d : desc) (present rewindable : bool) (data : bytes)
  | CPushBlobChunked (repo : bytes) (chunk_size : Z) (ops : list wop)
  | CPushBlobChunkedResume (repo id : bytes) (offset chunk_size : Z) (ops : list wop)
  | CMountBlob (from to dig : bytes)
  | CPushManifest (repo tag contents media : bytes)
  | CDeleteBlob (repo dig : bytes)
  | CDeleteManifest (repo dig : bytes)
  | CDeleteTag (repo tag : bytes)
  | CRepositories (start : bytes) (budget : option nat)
  | CTags (repo start : bytes) (budget : option nat)
  | CReferrers (repo dig art : bytes) (budget : option nat).

Inductive outcome :=
  | ODesc (r : R gerr desc)
  | ORead (r : R gerr (desc * bytes * rend))   (* descriptor, bytes delivered, how the stream ended *)
  | OUnit (r : R gerr unit)
  | ONames (ys : list (bytes + gerr)) (e : pend)     (* the yields of Repositories / Tags *)
  | ODescs (ys : list (desc + gerr)) (e : pend)      (* the yields of Referrers *)
  | OWriter (r : R gerr (list wres * Z * Z)).        (* per operation; final Size, ChunkSize *)

Definition wres_panics (r : wres) : bool :=
  match r with WrInt r => is_panic r | WrDesc r => is_panic r end.
Definition wres_out_of_fuel (r : wres) : bool :=
  match r with WrInt OutOfFuel | WrDesc OutOfFuel => true | _ => false end.

Section Client.
  Variable Srv : Type.
  Variable serve : Srv -> hreq -> Srv * option hresp.
  Variable ev : env.
  Variable bd : build.

  Notation world := (world Srv).

  (* a step of a client method: new world, value or error or panic *)
  Definition M (A : Type) : Type := world -> world * R gerr A.
  Definition ret {A} (a : A) : M A := fun w => (w, Ok a).
  Definition fail {A} (e : gerr) : M A := fun w => (w, Err e).
  Definition lift {A} (r : R gerr A) : M A := fun w => (w, r).
  Definition bind {A B} (m : M A) (f : A -> M B) : M B :=
    fun w => let '(w1, r) := m w in
             match r with
             | Ok a => f a w1
             | Err e => (w1, Err e)
             | Panic => (w1, Panic)
             | OutOfFuel => (w1, OutOfFuel)
             end.
  Notation "x <- m ;; k" := (bind m (fun x => k)) (at level 61, m at next level, right associativity).

  (* ------------------------------------------------------------ client.go: New *)

  Record client := { c_page_size : Z }.

  Definition default_list_page_size : Z := 1000.

  Definition new_client (list_page_size : Z) : client :=
    let unset := if b_page_default_le0 bd then list_page_size <=? 0 else list_page_size =? 0 in
    {| c_page_size := if unset then default_list_page_size else list_page_size |}.

  Variable c : client.

  (* ------------------------------------------------------------ error.go: makeError *)

  Definition error_body_size_limit : Z := 8192.

  (* makeError: read at most limit+1 bytes of the body, then makeError1 (Model/Errors.v) *)
  Definition make_error (r : resp) (w : world) : world * gerr :=
    let '(w1, (data, failed, _)) := read_limited w r (error_body_size_limit + 1) in
    (w1,
     if failed then Http (status r) (Some (Plain (s "cannot read error body"))) true
     else Errors.make_error
            {| rp_head := meth_eqb (rq_method (hr_req r)) MHead;
               rp_status := status r;
               rp_media := e_media ev (rheader h_content_type r);
               rp_len := blenZ data;
               rp_body := e_json_errors ev data;
               rp_txt := [] |}).

  Definition fail_make_error {A} (r : resp) : M A :=
    fun w => let '(w1, e) := make_error r w in (w1, Err e).

  (* ------------------------------------------------------------ client.go: do, doRequest *)

  (* newRequest: Construct validates, http.NewRequestWithContext with no body *)
  Definition new_request (q : rreq) : M hreq :=
    if e_construct_ok ev q
    then ret {| rq_method := kind_method (q_kind q); rq_url := UReq q; rq_header := [];
                rq_body := BNil; rq_clen := 0 |}
    else fail (Plain (s "invalid OCI request")).

  Definition status_accepted (oks : list Z) (st : Z) : bool :=
    match oks with
    | [] => st =? 200
    | _ => existsb (Z.eqb st) oks
    end.

  (* client.do *)
  Definition client_do (req : hreq) (oks : list Z) : M resp :=
    fun w =>
      let '(w1, d) := http_do serve (e_url_ok ev) w req in
      match d with
      | DoErr => (w1, Err (Wrap (s "cannot do HTTP request: ") (Plain (s "transport"))))
      | DoResp r =>
          if status_accepted oks (status r) then (w1, Ok r)
          else if negb (is_ok_status (status r)) then fail_make_error r w1
          else (w1, Err (Plain (s "unexpected HTTP response code")))
      end.

  Definition with_header (k v : bytes) (r : hreq) : hreq :=
    {| rq_method := rq_method r; rq_url := rq_url r; rq_header := (k, v) :: rq_header r;
       rq_body := rq_body r; rq_clen := rq_clen r |}.

  Definition known_manifest_media_types : bytes := s "manifest media types".

  (* client.doRequest *)
  Definition do_request (q : rreq) (oks : list Z) : M resp :=
    req <- new_request q ;;
    let req := match q_kind q with
               | ReqManifestGet | ReqManifestHead => with_header h_accept known_manifest_media_types req
               | _ => req
               end in
    r <- client_do req oks ;;
    if is_ok_status (status r) then ret r else fail_make_error r.

  (* locationFromResponse *)
  Definition location_from_response (r : resp) : R gerr url :=
    let location := rheader location_hdr r in
    if is_empty location then Err (Plain (s "no Location found in response"))
    else if negb (e_url_ok ev location) then Err (Plain (s "invalid Location URL found in response"))
    else Ok (URef (rq_url (hr_req r)) location).

  (* ------------------------------------------------------------ client.go: descriptorFromResponse *)

  Definition descriptor_from_response (r : resp) (known_digest : bytes)
             (require_size require_digest : bool) : R gerr desc :=
    let content_type := rheader h_content_type r in
    let content_type := if is_empty content_type then octet_stream else content_type in
    do size <-
      (if require_size then
         if status r =? 206 then
           let content_range := rheader h_content_range r in
           if is_empty content_range then Err (Plain (s "no Content-Range in partial content response"))
           else match cut_last 47%N content_range with
                | None => Err (Plain (s "malformed Content-Range"))
                | Some (_, sz) =>
                    match parse_int64 sz with
                    | None => Err (Plain (s "malformed Content-Range"))
                    | Some n => Ok n
                    end
                end
         else if rs_clen (hr_rs r) <? 0 then Err (Plain (s "unknown content length"))
         else Ok (rs_clen (hr_rs r))
       else Ok 0);
    do dig <-
      (let d := rheader h_digest r in
       if negb (is_empty d) then
         if e_valid_digest ev d then Ok d else Err (Plain (s "bad digest found in response"))
       else if b_known_digest_checked bd && negb (is_empty known_digest)
               && negb (e_valid_digest ev known_digest)
       then Err (Plain (s "bad digest"))
       else Ok known_digest);
    if require_digest && is_empty dig then Err (Plain (s "no digest found in response"))
    else Ok {| d_media := content_type; d_digest := dig; d_size := size; d_artifact := [] |}.

  (* ------------------------------------------------------------ client.go: blobReader *)

  (* Digest.Algorithm: d[:d.sepIndex()], sepIndex panics when there is no ":" *)
  Definition algorithm_of (d : bytes) : R gerr bytes :=
    match cut_byte 58%N d with
    | None => Panic
    | Some (a, _) => Ok a
    end.

  (* Algorithm.Hash panics when the algorithm is not available *)
  Definition hash_new (alg : bytes) : R gerr unit :=
    if e_available ev alg then Ok tt else Panic.

  (* newBlobReader / newBlobReaderUnverified *)
  Definition new_blob_reader (src : source) (d : desc) (verify : bool) : R gerr blob_reader :=
    do alg <- algorithm_of (d_digest d);
    do _ <- hash_new alg;
    Ok {| br_src := src; br_n := 0; br_alg := alg; br_seen := []; br_desc := d; br_verify := verify |}.

  Definition source_of (r : resp) : source :=
    {| src_idx := Some (hr_idx r); src_rest := hr_rest r; src_fail := b_fail (rs_body (hr_rs r)) |}.

  (* one Read of the underlying reader into a buffer of k bytes: the data, and whether the
     reader said nil, io.EOF or failed *)
  Definition source_read (src : source) (k : nat) (w : world) : world * (source * bytes * option bool) :=
    match src_rest src with
    | [] => (w, (src, [], Some (src_fail src)))
    | _ =>
        let data := firstn k (src_rest src) in
        let src' := {| src_idx := src_idx src; src_rest := skipn k (src_rest src); src_fail := src_fail src |} in
        let w' := match src_idx src with
                  | Some i => {| w_srv := w_srv w; w_log := add_read i (blenZ data) (w_log w) |}
                  | None => w
                  end in
        (w', (src', data, None))
    end.

  Definition size_invalid (p : bytes) : gerr := Wrap p (std_err SSizeInvalid).

  (* digest.NewDigest(alg, digester) *)
  Definition new_digest (alg data : bytes) : bytes := alg ++ 58%N :: e_hashhex ev alg data.

  (* blobReader.Read with a buffer of k bytes *)
  Definition blob_read (br : blob_reader) (k : nat) (w : world) : world * (blob_reader * bytes * rend) :=
    let '(w1, (src', data, e)) := source_read (br_src br) k w in
    let n' := br_n br + blenZ data in
    let seen' := br_seen br ++ data in
    let br' := {| br_src := src'; br_n := n'; br_alg := br_alg br; br_seen := seen';
                  br_desc := br_desc br; br_verify := br_verify br |} in
    let size := d_size (br_desc br) in
    (w1, (br', data,
      match e with
      | None => if size <? n' then RdErr (size_invalid (s "blob size exceeds content length: ")) else RdMore
      | Some true => RdErr (Plain (s "read error"))
      | Some false =>
          if negb (br_verify br) then
            (* the final bytes can arrive together with io.EOF *)
            (if size <? n' then RdErr (size_invalid (s "blob size exceeds content length: ")) else RdEOF)
          else if negb (n' =? size) then RdErr (size_invalid (s "blob size mismatch: "))
          else if beqb (new_digest (br_alg br) seen') (d_digest (br_desc br)) then RdEOF
          else RdErr (Plain (s "digest mismatch when reading blob"))
      end)).

  (* the caller reading until an error, k bytes at a time *)
  Fixpoint drain (fuel : nat) (br : blob_reader) (k : nat) (acc : bytes) (w : world)
    : world * R gerr (bytes * rend) :=
    match fuel with
    | O => (w, OutOfFuel)
    | S fuel' =>
        let '(w1, (br', data, e)) := blob_read br k w in
        match e with
        | RdMore => drain fuel' br' k (acc ++ data) w1
        | _ => (w1, Ok (acc ++ data, e))
        end
    end.

  Definition drain_all (br : blob_reader) (k : nat) : M (desc * bytes * rend) :=
    fun w => let '(w1, r) := drain (S (length (src_rest (br_src br)))) br k [] w in
             (w1, match r with
                  | Ok (data, e) => Ok (br_desc br, data, e)
                  | Err e => Err e
                  | Panic => Panic
                  | OutOfFuel => OutOfFuel
                  end).

  (* ------------------------------------------------------------ reader.go *)

  Definition in_mem_threshold : Z := 131072.

  Definition from_bytes (data : bytes) : bytes := new_digest sha256_name data.

  Definition with_kind (k : kind) (q : rreq) : rreq :=
    {| q_kind := k; q_repo := q_repo q; q_digest := q_digest q; q_tag := q_tag q; q_from := q_from q;
       q_upload := q_upload q; q_n := q_n q; q_last := q_last q |}.

  Definition with_digest (dg : bytes) (d : desc) : desc :=
    {| d_media := d_media d; d_digest := dg; d_size := d_size d; d_artifact := d_artifact d |}.

  Definition flatten {A} (tag : bytes) (r : R gerr A) : R gerr A :=
    match r with
    | Err _ => Err (Plain tag)      (* fmt.Errorf("...: %v", err) *)
    | _ => r
    end.

  Definition is_manifest_get (k : kind) : bool := match k with ReqManifestGet => true | _ => false end.

  (* the branch of client.read that reads a small manifest into memory to find its digest:
     io.ReadAll(io.LimitReader(resp.Body, desc.Size+1)), digest.FromBytes, a bytes.Reader *)
  Definition read_in_memory (r : resp) (d : desc) : M blob_reader :=
    fun w =>
      let '(w1, (data, failed, _)) := read_limited w r (d_size d + 1) in
      if failed then (w1, Err (Plain (s "failed to read body to determine digest")))
      else if negb (blenZ data =? d_size d) then (w1, Err (Plain (s "body size mismatch")))
      else (w1, new_blob_reader {| src_idx := None; src_rest := data; src_fail := false |}
                                (with_digest (from_bytes data) d) true).

  (* client.read *)
  Definition client_read (q : rreq) : M blob_reader :=
    r <- do_request q [] ;;
    d <- lift (flatten (s "invalid descriptor in response")
                       (descriptor_from_response r (q_digest q) true false)) ;;
    if is_empty (d_digest d) then
      if negb (is_manifest_get (q_kind q))
      then fail (Plain (s "internal error: no digest available for non-tag request"))
      else if d_size d <=? in_mem_threshold then read_in_memory r d
      else
        r1 <- do_request (with_kind ReqManifestHead q) [] ;;
        d1 <- lift (descriptor_from_response r1 (q_digest q) true true) ;;
        lift (new_blob_reader (source_of r) d1 true)
    else lift (new_blob_reader (source_of r) d true).

  Definition get_blob (repo dig : bytes) : M blob_reader := client_read (mk_rreq ReqBlobGet repo dig []).
  Definition get_manifest (repo dig : bytes) : M blob_reader := client_read (mk_rreq ReqManifestGet repo dig []).
  Definition get_tag (repo tag : bytes) : M blob_reader := client_read (mk_rreq ReqManifestGet repo [] tag).

  Definition range_header (o0 o1 : Z) : bytes :=
    if o1 <? 0 then s "bytes=" ++ fmt_d o0 ++ [45%N]
    else s "bytes=" ++ fmt_d o0 ++ 45%N :: fmt_d (o1 - 1).

  Definition get_blob_range (repo dig : bytes) (o0 o1 : Z) : M blob_reader :=
    if (o0 =? 0) && (o1 <? 0) then get_blob repo dig
    else
      let q := mk_rreq ReqBlobGet repo dig [] in
      req <- new_request q ;;
      let req := with_header h_range (range_header o0 o1) req in
      r <- client_do req [200; 206] ;;
      d <- lift (flatten (s "invalid descriptor in response")
                         (descriptor_from_response r dig true false)) ;;
      lift (new_blob_reader (source_of r) d false).

  (* client.resolve *)
  Definition resolve (q : rreq) : M desc :=
    r <- do_request q [] ;;
    lift (flatten (s "invalid descriptor in response")
                  (descriptor_from_response r (q_digest q) true true)).

  Definition resolve_blob (repo dig : bytes) : M desc := resolve (mk_rreq ReqBlobHead repo dig []).
  Definition resolve_manifest (repo dig : bytes) : M desc := resolve (mk_rreq ReqManifestHead repo dig []).
  Definition resolve_tag (repo tag : bytes) : M desc := resolve (mk_rreq ReqManifestHead repo [] tag).

  (* ------------------------------------------------------------ deleter.go *)

  Definition delete (q : rreq) : M unit :=
    _ <- do_request q [202] ;; ret tt.

  Definition delete_blob (repo dig : bytes) : M unit := delete (mk_rreq ReqBlobDelete repo dig []).
  Definition delete_manifest (repo dig : bytes) : M unit := delete (mk_rreq ReqManifestDelete repo dig []).
  Definition delete_tag (repo tag : bytes) : M unit := delete (mk_rreq ReqManifestDelete repo [] tag).

  (* ------------------------------------------------------------ writer.go: one-shot pushes *)

  Definition with_body (b : reqbody) (clen : Z) (r : hreq) : hreq :=
    {| rq_method := rq_method r; rq_url := rq_url r; rq_header := rq_header r;
       rq_body := b; rq_clen := clen |}.

  Definition push_manifest (repo tag contents media : bytes) : M desc :=
    if is_empty media then fail (Plain (s "PushManifest called with empty mediaType"))
    else
      let d := {| d_media := media; d_digest := from_bytes contents; d_size := blenZ contents;
                  d_artifact := [] |} in
      req <- new_request (mk_rreq ReqManifestPut repo (d_digest d) tag) ;;
      let req := with_header h_content_type media (with_body (body_of_reader true true contents) (d_size d) req) in
      _ <- client_do req [201] ;;
      ret d.

  Definition mount_rreq (from to dig : bytes) : rreq :=
    {| q_kind := ReqBlobMount; q_repo := to; q_digest := dig; q_tag := []; q_from := from;
       q_upload := []; q_n := 0; q_last := [] |}.

  Definition mount_blob (from to dig : bytes) : M desc :=
    r <- do_request (mount_rreq from to dig) [201; 202] ;;
    if status r =? 202
    then fail (Wrap (s "registry does not support mounts: ") (std_err SUnsupported))
    else lift (descriptor_from_response r dig false true).

  Definition start_upload_rreq (repo : bytes) : rreq := mk_rreq ReqBlobStartUpload repo [] [].

  Definition push_blob (repo : bytes) (d : desc) (present rewindable : bool) (data : bytes) : M desc :=
    req <- new_request (start_upload_rreq repo) ;;
    r <- client_do req [202] ;;
    location <- lift (location_from_response r) ;;
    (* the content is held to the size in the descriptor where net/http would not *)
    if d_size d <? 0 then fail (size_invalid (s "negative size in descriptor: "))
    else if (d_size d =? 0) && present && negb (is_empty data)   (* io.ReadFull(r, buf[:1]) *)
    then fail (size_invalid (s "content is larger than the size 0 in the descriptor: "))
    else
      let present := if d_size d =? 0 then false else present in   (* r = nil *)
      let body := body_of_reader present rewindable data in
      if (0 <? d_size d) && (match body with BNil | BNoBody => true | BData _ _ => false end)
      then fail (size_invalid (s "content is empty but the descriptor has a size: "))
      else if (0 <? d_size d) &&
              (match body with BData b true => negb (blenZ b =? d_size d) | _ => false end)
              (* req.GetBody != nil: the length is known *)
      then fail (size_invalid (s "content length differs from the size in the descriptor: "))
      else
        let put := {| rq_method := MPut; rq_url := UDigest location (d_digest d);
                      rq_header := [(h_content_range, range_string 0 (d_size d));
                                    (h_content_type, octet_stream)];
                      rq_body := body; rq_clen := d_size d |} in
        _ <- client_do put [201] ;;
        ret d.

  (* ------------------------------------------------------------ writer.go: blobWriter *)

  Definition default_chunk_size : Z := 65536.

  (* chunkSizeFromResponse *)
  Definition chunk_size_from_response (r : resp) (chunk_size : Z) : Z :=
    match atoi (rheader h_chunk_min r) with
    | Some m => if chunk_size <? m then m else chunk_size
    | None => chunk_size
    end.

  (* concatBody + NewRequestWithContext *)
  Definition concat_body (b1 b2 : bytes) : reqbody :=
    match b1, b2 with
    | [], [] => BNil
    | [], _ => BData b2 true
    | _, [] => BData b1 true
    | _, _ => BData (b1 ++ b2) false       (* io.MultiReader: no GetBody *)
    end.

  Definition chunk_bytes (w : writer) : bytes := match wr_chunk w with Some b => b | None => [] end.

  (* blobWriter.flush: the new writer state; on an error the state is unchanged *)
  Definition flush (wr : writer) (buf commit_digest : bytes) : M writer :=
    let chunk := chunk_bytes wr in
    if is_empty commit_digest && (blenZ buf + blenZ chunk =? 0) then ret wr
    else
      let clen := blenZ chunk + blenZ buf in
      let commit := negb (is_empty commit_digest) in
      let req := {| rq_method := if commit then MPut else MPatch;
                    rq_url := if commit then UDigest (wr_location wr) commit_digest else wr_location wr;
                    rq_header := [(h_content_range, range_string (wr_flushed wr) (w64 (wr_flushed wr + clen)))];
                    rq_body := concat_body chunk buf; rq_clen := clen |} in
      r <- client_do req [if commit then 201 else 202] ;;
      location <- lift (flatten (s "bad Location in response") (location_from_response r)) ;;
      ret {| wr_chunk_size := wr_chunk_size wr; wr_closed := wr_closed wr;
             wr_chunk := option_map (fun _ => []) (wr_chunk wr);      (* w.chunk[:0] *)
             wr_close_err := wr_close_err wr; wr_size := wr_size wr;
             wr_flushed := w64 (wr_flushed wr + clen); wr_location := location |}.

  (* runtime.makeslice refuses a capacity above maxAlloc (1 shl 48 on linux/amd64) *)
  Definition max_alloc : Z := 281474976710656.

  (* w.chunk = make([]byte, 0, ...) when w.chunk == nil *)
  Definition alloc_chunk (wr : writer) : R gerr bytes :=
    match wr_chunk wr with
    | Some b => Ok b
    | None =>
        let cap := if b_prealloc_capped bd then Z.min (wr_chunk_size wr) default_chunk_size
                   else wr_chunk_size wr in
        if max_alloc <? cap then Panic else Ok []
    end.

  Definition set_size (wr : writer) (n : Z) : writer :=
    {| wr_chunk_size := wr_chunk_size wr; wr_closed := wr_closed wr; wr_chunk := wr_chunk wr;
       wr_close_err := wr_close_err wr; wr_size := n; wr_flushed := wr_flushed wr;
       wr_location := wr_location wr |}.

  (* blobWriter.Write: the writer afterwards and (n, err) *)
  Definition writer_write (wr : writer) (buf : bytes) (w : world) : world * (writer * R gerr Z) :=
    if wr_chunk_size wr <? blenZ (chunk_bytes wr) + blenZ buf then
      let '(w1, r) := flush wr buf [] w in
      match r with
      | Ok wr' => (w1, (set_size wr' (w64 (wr_size wr' + blenZ buf)), Ok (blenZ buf)))
      | Err e => (w1, (wr, Err e))
      | Panic => (w1, (wr, Panic))
      | OutOfFuel => (w1, (wr, OutOfFuel))
      end
    else
      match alloc_chunk wr with
      | Ok b =>
          let wr' := {| wr_chunk_size := wr_chunk_size wr; wr_closed := wr_closed wr;
                        wr_chunk := Some (b ++ buf); wr_close_err := wr_close_err wr;
                        wr_size := w64 (wr_size wr + blenZ buf); wr_flushed := wr_flushed wr;
                        wr_location := wr_location wr |} in
          (w, (wr', Ok (blenZ buf)))
      | Err e => (w, (wr, Err e))
      | Panic => (w, (wr, Panic))
      | OutOfFuel => (w, (wr, OutOfFuel))
      end.

  Definition set_closed (wr : writer) (e : option gerr) : writer :=
    {| wr_chunk_size := wr_chunk_size wr; wr_closed := true; wr_chunk := wr_chunk wr;
       wr_close_err := e; wr_size := wr_size wr; wr_flushed := wr_flushed wr;
       wr_location := wr_location wr |}.

  (* blobWriter.Close *)
  Definition writer_close (wr : writer) (w : world) : world * (writer * R gerr Z) :=
    if wr_closed wr then
      (w, (wr, match wr_close_err wr with Some e => Err e | None => Ok 0 end))
    else
      let '(w1, r) := flush wr [] [] w in
      match r with
      | Ok wr' => (w1, (set_closed wr' None, Ok 0))
      | Err e => (w1, (set_closed wr (Some e), Err e))
      | Panic => (w1, (wr, Panic))
      | OutOfFuel => (w1, (wr, OutOfFuel))
      end.

  (* blobWriter.Commit *)
  Definition writer_commit (wr : writer) (dig : bytes) (w : world) : world * (writer * R gerr desc) :=
    if is_empty dig then (w, (wr, Err (Plain (s "cannot commit with an empty digest"))))
    else
      let '(w1, r) := flush wr [] dig w in
      match r with
      | Ok wr' => (w1, (wr', Ok {| d_media := octet_stream; d_digest := dig; d_size := wr_size wr';
                                   d_artifact := [] |}))
      | Err e => (w1, (wr, Err (Wrap (s "cannot flush data before commit: ") e)))
      | Panic => (w1, (wr, Panic))
      | OutOfFuel => (w1, (wr, OutOfFuel))
      end.

  Definition writer_op (wr : writer) (o : wop) (w : world) : world * (writer * wres) :=
    match o with
    | WoWrite data => let '(w1, (wr', r)) := writer_write wr data w in (w1, (wr', WrInt r))
    | WoClose => let '(w1, (wr', r)) := writer_close wr w in (w1, (wr', WrInt r))
    | WoCommit d => let '(w1, (wr', r)) := writer_commit wr d w in (w1, (wr', WrDesc r))
    | WoSize => (w, (wr, WrInt (Ok (wr_size wr))))
    | WoChunkSize => (w, (wr, WrInt (Ok (wr_chunk_size wr))))
    | WoCancel => (w, (wr, WrInt (Ok 0)))
    end.

  (* the caller's sequence of operations; a panic ends it *)
  Fixpoint writer_ops (wr : writer) (ops : list wop) (acc : list wres) (w : world)
    : world * R gerr (list wres * Z * Z) :=
    match ops with
    | [] => (w, Ok (acc, wr_size wr, wr_chunk_size wr))
    | o :: ops' =>
        let '(w1, (wr', r)) := writer_op wr o w in
        if wres_panics r then (w1, Panic) else writer_ops wr' ops' (acc ++ [r]) w1
    end.

  Definition push_blob_chunked (repo : bytes) (chunk_size : Z) : M writer :=
    let chunk_size := if chunk_size <=? 0 then default_chunk_size else chunk_size in
    r <- do_request (start_upload_rreq repo) [202] ;;
    location <- lift (location_from_response r) ;;
    ret {| wr_chunk_size := chunk_size_from_response r chunk_size; wr_closed := false;
           wr_chunk := Some []; wr_close_err := None; wr_size := 0; wr_flushed := 0;
           wr_location := location |}.

  Definition push_blob_chunked_resume (repo id : bytes) (offset chunk_size : Z) : M writer :=
    if is_empty id then fail (Plain (s "id must be non-empty to resume a chunked upload"))
    else
      let chunk_size := if chunk_size <=? 0 then default_chunk_size else chunk_size in
      let mk (location : url) (chunk_size offset : Z) : writer :=
        {| wr_chunk_size := chunk_size; wr_closed := false; wr_chunk := None; wr_close_err := None;
           wr_size := offset; wr_flushed := offset; wr_location := location |} in
      if offset =? -1 then
        if negb (e_url_ok ev id) then fail (Plain (s "NewRequest: invalid URL"))
        else
          let req := {| rq_method := MGet; rq_url := UId id; rq_header := []; rq_body := BNil; rq_clen := 0 |} in
          fun w =>
            let '(w1, a) := client_do req [204] w in
            match a with
            | Err e => (w1, Err (Wrap (s "cannot recover chunk offset: ") e))
            | Panic => (w1, Panic)
            | OutOfFuel => (w1, OutOfFuel)
            | Ok r =>
                (w1,
                 do location <- flatten (s "cannot get location from response") (location_from_response r);
                 match parse_range (rheader h_range r) with
                 | None => Err (Plain (s "invalid range in response"))
                 | Some (p0, p1) =>
                     if negb (p0 =? 0) then Err (Plain (s "range does not start with 0"))
                     else Ok (mk location (chunk_size_from_response r chunk_size) p1)
                 end)
            end
      else if offset <? 0 then fail (Plain (s "invalid offset; must be -1 or non-negative"))
      else if negb (e_url_ok ev id) then fail (Plain (s "provided ID is not a valid location URL"))
      else if negb (e_url_rooted ev id) then fail (Plain (s "provided upload ID has unexpected relative URL path"))
      else ret (mk (UId id) chunk_size offset).

  (* ------------------------------------------------------------ lister.go *)

  (* the consumer of an iterator: budget = Some n means the (n+1)-th call of yield returns
     false, None = it never does.  Returns what was yielded, the budget left, and whether
     every yield returned true. *)
  Fixpoint yield_items {A} (items : list A) (budget : option nat) : list A * option nat * bool :=
    match items with
    | [] => ([], budget, true)
    | it :: rest =>
        match budget with
        | Some O => ([it], Some O, false)
        | Some (S n) => let '(ys, b, cont) := yield_items rest (Some n) in (it :: ys, b, cont)
        | None => let '(ys, b, cont) := yield_items rest None in (it :: ys, b, cont)
        end
    end.

  (* items[len(items)-1] *)
  Definition last_item (items : list bytes) : R gerr bytes :=
    match rev items with
    | [] => Panic
    | x :: _ => Ok x
    end.

  Definition with_last (last : bytes) (q : rreq) : rreq :=
    {| q_kind := q_kind q; q_repo := q_repo q; q_digest := q_digest q; q_tag := q_tag q; q_from := q_from q;
       q_upload := q_upload q; q_n := q_n q; q_last := last |}.

  Definition get_request (u : url) : hreq :=
    {| rq_method := MGet; rq_url := u; rq_header := []; rq_body := BNil; rq_clen := 0 |}.

  (* nextLink *)
  Definition next_link (r : resp) (initial : rreq) (last : bytes) : R gerr hreq :=
    match rheader h_link r with
    | [] =>
        let q := with_last last initial in
        if e_construct_ok ev q
        then Ok {| rq_method := kind_method (q_kind q); rq_url := UReq q; rq_header := [];
                   rq_body := BNil; rq_clen := 0 |}
        else Err (Plain (s "cannot form next request"))
    | c0 :: rest =>
        if negb (c0 =? 60)%N then Err (Plain (s "no initial < character in Link"))
        else match cut_byte 62%N rest with
             | None => Err (Plain (s "no > character in Link"))
             | Some (link, _) =>
                 if e_url_ok ev link then Ok (get_request (URef (rq_url (hr_req r)) link))
                 else Err (Plain (s "invalid URL in Link"))
             end
    end.

  (* the parseResponse closures of Repositories and Tags *)
  Definition parse_names (tags : bool) (r : resp) (w : world) : world * R gerr (list bytes) :=
    let '(w1, (data, failed)) := read_all w r in
    (w1,
     if failed then Err (Plain (s "read error"))
     else match e_json_names ev tags data with
          | None => Err (Plain (s "cannot unmarshal list response"))
          | Some items => Ok items
          end).

  (* the loop of pager; acc = the yields so far *)
  Fixpoint pager_loop (fuel : nat) (tags : bool) (initial : rreq) (req : hreq)
           (budget : option nat) (acc : list (bytes + gerr)) (w : world)
    : world * (list (bytes + gerr) * pend) :=
    match fuel with
    | O => (w, (acc, PFuel))
    | S fuel' =>
        let '(w1, a) := client_do req [] w in
        match a with
        | Err e => (w1, (acc ++ [inr e], PDone))
        | Panic => (w1, (acc, PPanic))
        | OutOfFuel => (w1, (acc, PFuel))
        | Ok r =>
            let '(w2, p) := parse_names tags r w1 in
            match p with
            | Err e => (w2, (acc ++ [inr e], PDone))
            | Panic => (w2, (acc, PPanic))
            | OutOfFuel => (w2, (acc, PFuel))
            | Ok items =>
                let '(ys, budget', cont) := yield_items items budget in
                let acc' := acc ++ map inl ys in
                if negb cont then (w2, (acc', PDone))
                else if Z.of_nat (length items) <? q_n initial then (w2, (acc', PDone))
                else match last_item items with
                     | Ok last =>
                         match next_link r initial last with
                         | Ok req' => pager_loop fuel' tags initial req' budget' acc' w2
                         | Err e => (w2, (acc' ++ [inr (Plain (s "invalid Link header in response"))], PDone))
                         | Panic => (w2, (acc', PPanic))
                         | OutOfFuel => (w2, (acc', PFuel))
                         end
                     | _ => (w2, (acc', PPanic))
                     end
            end
        end
    end.

  (* client.pager *)
  Definition pager (fuel : nat) (tags : bool) (initial : rreq) (budget : option nat) (w : world)
    : world * (list (bytes + gerr) * pend) :=
    if e_construct_ok ev initial
    then pager_loop fuel tags initial
           {| rq_method := kind_method (q_kind initial); rq_url := UReq initial; rq_header := [];
              rq_body := BNil; rq_clen := 0 |} budget [] w
    else (w, ([inr (Plain (s "invalid OCI request"))], PDone)).

  Definition list_rreq (k : kind) (repo dig start : bytes) : rreq :=
    {| q_kind := k; q_repo := repo; q_digest := dig; q_tag := []; q_from := []; q_upload := [];
       q_n := c_page_size c; q_last := start |}.

  Definition repositories (fuel : nat) (start : bytes) (budget : option nat) :=
    pager fuel false (list_rreq ReqCatalogList [] [] start) budget.

  Definition tags (fuel : nat) (repo start : bytes) (budget : option nat) :=
    pager fuel true (list_rreq ReqTagsList repo [] start) budget.

  (* client.Referrers: one request, no paging *)
  Definition referrers (repo dig art : bytes) (budget : option nat) (w : world)
    : world * (list (desc + gerr) * pend) :=
    let '(w1, a) := do_request (list_rreq ReqReferrersList repo dig []) [] w in
    match a with
    | Err e => (w1, ([inr e], PDone))
    | Panic => (w1, ([], PPanic))
    | OutOfFuel => (w1, ([], PFuel))
    | Ok r =>
        let '(w2, (data, failed)) := read_all w1 r in
        if failed then (w2, ([inr (Plain (s "read error"))], PDone))
        else match e_json_index ev data with
             | None => (w2, ([inr (Plain (s "cannot unmarshal referrers response"))], PDone))
             | Some ms => let '(ys, _, _) := yield_items ms budget in (w2, (map inl ys, PDone))
             end
    end.

  (* ------------------------------------------------------------ one call, start to end *)

  Definition read_and_drain (m : M blob_reader) (bufsz : nat) : M (desc * bytes * rend) :=
    br <- m ;; drain_all br bufsz.

  Definition with_writer (m : M writer) (ops : list wop) : M (list wres * Z * Z) :=
    wr <- m ;; writer_ops wr ops [].

  Definition run (fuel : nat) (cl : call) (w : world) : world * outcome :=
    match cl with
    | CGetBlob repo dig k => let '(w1, r) := read_and_drain (get_blob repo dig) k w in (w1, ORead r)
    | CGetBlobRange repo dig o0 o1 k =>
        let '(w1, r) := read_and_drain (get_blob_range repo dig o0 o1) k w in (w1, ORead r)
    | CGetManifest repo dig k => let '(w1, r) := read_and_drain (get_manifest repo dig) k w in (w1, ORead r)
    | CGetTag repo tag k => let '(w1, r) := read_and_drain (get_tag repo tag) k w in (w1, ORead r)
    | CResolveBlob repo dig => let '(w1, r) := resolve_blob repo dig w in (w1, ODesc r)
    | CResolveManifest repo dig => let '(w1, r) := resolve_manifest repo dig w in (w1, ODesc r)
    | CResolveTag repo tag => let '(w1, r) := resolve_tag repo tag w in (w1, ODesc r)
    | CPushBlob repo d present rewindable data =>
        let '(w1, r) := push_blob repo d present rewindable data w in (w1, ODesc r)
    | CPushBlobChunked repo cs ops =>
        let '(w1, r) := with_writer (push_blob_chunked repo cs) ops w in (w1, OWriter r)
    | CPushBlobChunkedResume repo id off cs ops =>
        let '(w1, r) := with_writer (push_blob_chunked_resume repo id off cs) ops w in (w1, OWriter r)
    | CMountBlob from to dig => let '(w1, r) := mount_blob from to dig w in (w1, ODesc r)
    | CPushManifest repo tag contents media =>
        let '(w1, r) := push_manifest repo tag contents media w in (w1, ODesc r)
    | CDeleteBlob repo dig => let '(w1, r) := delete_blob repo dig w in (w1, OUnit r)
    | CDeleteManifest repo dig => let '(w1, r) := delete_manifest repo dig w in (w1, OUnit r)
    | CDeleteTag repo tag => let '(w1, r) := delete_tag repo tag w in (w1, OUnit r)
    | CRepositories start budget =>
        let '(w1, (ys, e)) := repositories fuel start budget w in (w1, ONames ys e)
    | CTags repo start budget =>
        let '(w1, (ys, e)) := tags fuel repo start budget w in (w1, ONames ys e)
    | CReferrers repo dig art budget =>
        let '(w1, (ys, e)) := referrers repo dig art budget w in (w1, ODescs ys e)
    end.

End Client.

(* ---------------------------------------------------------------- what a panic looks like *)

Definition outcome_panics (o : outcome) : bool :=
  match o with
  | ODesc r => is_panic r
  | ORead r => is_panic r
  | OUnit r => is_panic r
  | ONames _ e | ODescs _ e => match e with PPanic => true | _ => false end
  | OWriter r => match r with
                 | Panic => true
                 | Ok (rs, _, _) => existsb wres_panics rs
                 | _ => false
                 end
  end.

Definition outcome_out_of_fuel (o : outcome) : bool :=
  match o with
  | ODesc r => match r with OutOfFuel => true | _ => false end
  | ORead r => match r with OutOfFuel => true | _ => false end
  | OUnit r => match r with OutOfFuel => true | _ => false end
  | ONames _ e | ODescs _ e => match e with PFuel => true | _ => false end
  | OWriter r => match r with
                 | OutOfFuel => true
                 | Ok (rs, _, _) => existsb wres_out_of_fuel rs
                 | _ => false
                 end
  end.

(* ---------------------------------------------------------------- a scripted server *)

(* the answers are consumed in order; None = the transport fails; after the last answer every
   request fails *)
Definition script := list (option hresp).

Definition script_serve (sc : script) (_ : hreq) : script * option hresp :=
  match sc with
  | [] => ([], None)
  | a :: rest => (rest, a)
  end.

Definition init_world {Srv} (s : Srv) : world Srv := {| w_srv := s; w_log := [] |}.
