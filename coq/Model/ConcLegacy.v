(* The sectioned model of ocimem BEFORE the repairs c75863f (GetTag in one critical section)
   and "ocimem-commit-atomic" (Commit re-validates in the callback), kept so that the two
   findings stay checkable statements (Props/C08.v, C08_legacy_*_refuted):

     GetTag  = ResolveTag (one section) ; GetManifest (another section)
     Commit  = checkCommit under Buffer.mu ; callback under Registry.mu which stores whatever
               GetBlob returns now and ignores its error ; len(b.buf) read without a lock

   Everything else is one section = Mem.step, as in Model/Conc.v.  A schedule is a list of
   thread moves; [lrun] plays it and records the shared states passed through. *)
From Coq Require Import String.
From OCI Require Export Model.Conc.

Inductive lpc :=
  | LStart (o : op)
  | LGetTag2 (r d : bytes)             (* ResolveTag answered digest d *)
  | LCommitB (w : wid) (d : bytes)     (* checkCommit passed *)
  | LCommitRead (w : wid) (d : bytes)  (* callback returned nil *)
  | LDone (r : result).

Section Legacy.
  Variable hash : bytes -> bytes.
  Variable valid_digest : bytes -> bool.
  Variable valid_repo : bytes -> bool.
  Variable valid_tag : bytes -> bool.
  Variable decode_image : bytes -> option image_manifest.
  Variable decode_index : bytes -> option index_manifest.
  Variable cfg : config.
  Local Notation mstep := (mstep hash valid_digest valid_repo valid_tag decode_image decode_index cfg).

  Definition lsec (m : state) (p : lpc) : option (state * lpc) :=
    match p with
    | LStart (GetTag r t) =>
        (* desc, err := r.ResolveTag(ctx, repoName, tagName) *)
        match snd (mstep m (ResolveTag r t)) with
        | Ok (RDesc de) => Some (m, LGetTag2 r (d_digest de))
        | Ok _ => Some (m, LDone Panic)
        | Err e => Some (m, LDone (Err e))
        | Panic => Some (m, LDone Panic)
        | OutOfFuel => Some (m, LDone OutOfFuel)
        end
    | LGetTag2 r d =>
        (* return r.GetManifest(ctx, repoName, desc.Digest) *)
        Some (m, LDone (snd (mstep m (GetManifest r d))))
    | LStart (WCommit w d) =>
        match nth_error (bufs m) (N.to_nat w) with
        | None => Some (m, LDone (Err no_writer))
        | Some b =>
            match u_err b with
            | Some e => Some (m, LDone (Err e))
            | None =>
                if beqb (hash (u_buf b)) d then
                  Some (with_buf m (N.to_nat w) (set_commit (octet_desc d (blen (u_buf b)))), LCommitB w d)
                else Some (with_buf m (N.to_nat w) (set_err e_digest_mismatch), LDone (Err e_digest_mismatch))
            end
        end
    | LCommitB w d =>
        (* desc, data, _ := b.GetBlob(); repo.blobs[desc.Digest] = &blob{..., data: data}; return nil *)
        match nth_error (bufs m) (N.to_nat w) with
        | None => Some (m, LDone (Err no_writer))
        | Some b =>
            let '(de, data) :=
              if negb (u_committed b) then (zero_desc, [])
              else match u_err b with Some _ => (zero_desc, []) | None => (u_desc b, u_buf b) end in
            Some (upd_repo m (u_repo b)
                    (rp_set_blob (d_digest de) {| b_media := d_media de; b_data := data; b_subject := [] |}),
                  LCommitRead w d)
        end
    | LCommitRead w d =>
        (* return Descriptor{Size: int64(len(b.buf)), Digest: dig}: no lock *)
        match nth_error (bufs m) (N.to_nat w) with
        | None => Some (m, LDone (Err no_writer))
        | Some b => Some (m, LDone (Ok (RDesc (octet_desc d (blen (u_buf b))))))
        end
    | LStart o => let (m', r) := mstep m o in Some (m', LDone r)
    | LDone _ => None
    end.

  Definition lthread := option (op * lpc).
  Record lconf := { l_mem : state; l_threads : list lthread }.

  Inductive move := MInv (t : nat) (o : op) | MSec (t : nat) | MRet (t : nat).

  Definition lmove (c : lconf) (mv : move) : option (lconf * list (nat * op * result)) :=
    match mv with
    | MInv t o =>
        match nth_error (l_threads c) t with
        | Some None => Some ({| l_mem := l_mem c; l_threads := set_nth t (Some (o, LStart o)) (l_threads c) |}, [])
        | _ => None
        end
    | MSec t =>
        match nth_error (l_threads c) t with
        | Some (Some (o, p)) =>
            match lsec (l_mem c) p with
            | Some (m', p') => Some ({| l_mem := m'; l_threads := set_nth t (Some (o, p')) (l_threads c) |}, [])
            | None => None
            end
        | _ => None
        end
    | MRet t =>
        match nth_error (l_threads c) t with
        | Some (Some (o, LDone r)) =>
            Some ({| l_mem := l_mem c; l_threads := set_nth t None (l_threads c) |}, [(t, o, r)])
        | _ => None
        end
    end.

  (* play a schedule: final configuration, the shared states passed through, the completed calls *)
  Fixpoint lrun (c : lconf) (sched : list move) : option (lconf * list state * list (nat * op * result)) :=
    match sched with
    | [] => Some (c, [l_mem c], [])
    | mv :: rest =>
        match lmove c mv with
        | Some (c1, done1) =>
            match lrun c1 rest with
            | Some (c2, ms, done2) => Some (c2, l_mem c :: ms, done1 ++ done2)
            | None => None
            end
        | None => None
        end
    end.

  Definition linit (n : nat) : lconf := {| l_mem := init; l_threads := repeat None n |}.

  Definition tag_liveb (m : state) (r t : bytes) : bool :=
    match itag m r t with
    | Some de => match iman m r (d_digest de) with Some _ => true | None => false end
    | None => false
    end.
End Legacy.
