(* Specification side of the URL codec theorem (C03, first mechanism): which requests the
   client may render ([wf_request]) and what the server's parser is documented to return for
   the rendered method + URL ([norm]).  Definitions only; the proofs are in
   Proofs/RequestCodec.v.

   [wf_request linked r]: by kind, exactly the fields [construct] prints are well formed.
     repository, from-repository   vrepo      (ociref.IsValidRepository)
     digest                        vdigest linked
     tag                           vtag
     manifest kinds                tag_or_digest prints the tag when Tag is non-empty, whatever
                                   Digest holds: then only the tag must be valid and Digest is
                                   ignored (and dropped by [norm]); with an empty Tag the digest
                                   must be valid
     mount                         From may be empty (see [norm]) or a valid repository
     upload ID                     any NON-EMPTY utf8.Valid byte string
     ListN                         any value up to MaxInt64 (a negative value prints no "n"
                                   parameter, so no lower bound is needed; above MaxInt64
                                   strconv.Atoi fails with a range error: not a Go int anyway)
     ListLast                      any string of bytes (every element below 256)
   Fields [construct] does not print for the kind are unconstrained.

   [norm r]: the identity on the printed fields, the zero value on every other field, and
     ListN < 0          -> -1   (TagsList, CatalogList: no "n" parameter is printed and
                                 setListQueryParams starts from -1)
     ReferrersList      -> ListN = -1 (set by the parser; nothing about listing is printed)
     Mount, From = ""   -> ReqBlobStartUpload with an empty digest (parse falls back to a
                                 regular chunked upload)
     manifest kinds     -> Tag non-empty: Digest dropped
     Ping, CatalogList  -> Repo dropped. *)
From Coq Require Import String.
From OCI Require Export Base.Outcome Model.Ref Model.Request.

Definition norm_listn (n : Z) : Z := if (n <? 0)%Z then (-1)%Z else n.

Definition list_ok (r : request) : bool :=
  (q_listn r <=? max_int64)%Z && forallb (fun c => c <? 256) (q_last r).

Definition upload_ok (r : request) : bool :=
  nonempty (q_upload r) && utf8_valid (q_upload r).

Definition wf_request (linked : alg -> bool) (r : request) : bool :=
  let repo_ok := vrepo (q_repo r) in
  let dig_ok := vdigest linked (q_digest r) in
  match q_kind r with
  | ReqPing => true
  | ReqBlobGet | ReqBlobHead | ReqBlobDelete | ReqBlobUploadBlob | ReqReferrersList => repo_ok && dig_ok
  | ReqBlobStartUpload => repo_ok
  | ReqBlobMount => repo_ok && dig_ok && match q_from r with [] => true | f => vrepo f end
  | ReqBlobUploadInfo | ReqBlobUploadChunk => repo_ok && upload_ok r
  | ReqBlobCompleteUpload => repo_ok && upload_ok r && dig_ok
  | ReqManifestGet | ReqManifestHead | ReqManifestPut | ReqManifestDelete =>
      repo_ok && match q_tag r with [] => dig_ok | t => vtag t end
  | ReqTagsList => repo_ok && list_ok r
  | ReqCatalogList => list_ok r
  end.

Definition norm (r : request) : request :=
  let k := q_kind r in
  match k with
  | ReqPing => mkreq k [] [] [] [] [] 0 []
  | ReqBlobGet | ReqBlobHead | ReqBlobDelete | ReqBlobUploadBlob =>
      mkreq k (q_repo r) (q_digest r) [] [] [] 0 []
  | ReqBlobStartUpload => mkreq k (q_repo r) [] [] [] [] 0 []
  | ReqBlobMount =>
      match q_from r with
      | [] => mkreq ReqBlobStartUpload (q_repo r) [] [] [] [] 0 []
      | f => mkreq k (q_repo r) (q_digest r) [] f [] 0 []
      end
  | ReqBlobUploadInfo | ReqBlobUploadChunk => mkreq k (q_repo r) [] [] [] (q_upload r) 0 []
  | ReqBlobCompleteUpload => mkreq k (q_repo r) (q_digest r) [] [] (q_upload r) 0 []
  | ReqManifestGet | ReqManifestHead | ReqManifestPut | ReqManifestDelete =>
      match q_tag r with
      | [] => mkreq k (q_repo r) (q_digest r) [] [] [] 0 []
      | t => mkreq k (q_repo r) [] t [] [] 0 []
      end
  | ReqTagsList => mkreq k (q_repo r) [] [] [] [] (norm_listn (q_listn r)) (q_last r)
  | ReqReferrersList => mkreq k (q_repo r) (q_digest r) [] [] [] (-1) []
  | ReqCatalogList => mkreq k [] [] [] [] [] (norm_listn (q_listn r)) (q_last r)
  end.

(* the statement of the codec theorem for one request, as a boolean (for examples) *)
Definition codec_holds (linked : alg -> bool) (r : request) : bool :=
  match url_parse_v2 (snd (construct r)) with
  | Ok (path, rawq) =>
      match parse_req linked (fst (construct r)) path rawq with
      | Ok r' => request_eqb r' (norm r)
      | _ => false
      end
  | _ => false
  end.

(* For the converse direction (parse, then construct): the two things a request returned by
   parse may have that construct cannot render back.
     ListN < -1         "?n=-5" is read as ListN = -5; construct prints no "n" parameter for
                        any negative value, which reads back as -1
     empty UploadID     base64 decoding skips CR and LF, so the path element "%0A" (non-empty)
                        decodes to the empty upload ID; construct then renders the path
                        .../blobs/uploads/ which is the start-upload endpoint *)
Definition parser_canonical (r : request) : bool :=
  (-1 <=? q_listn r)%Z &&
  match q_kind r with
  | ReqBlobUploadInfo | ReqBlobUploadChunk | ReqBlobCompleteUpload => nonempty (q_upload r)
  | _ => true
  end.
