(* C02: "well-formed and everything it references is already in the repository", said
   directly about the implementation state (no reference to checkManifest's loop). *)
From Coq Require Import String.
From OCI Require Export Model.MemSpec.

Section Accept.
  Variable valid_digest : bytes -> bool.
  Variable decode_image : bytes -> option image_manifest.
  Variable decode_index : bytes -> option index_manifest.

  (* an OCI image must decode, every layer and the config must be well-formed descriptors of
     blobs present in the repository; an index must decode and every entry must be a
     well-formed descriptor of a manifest present in the repository; a subject must be a
     well-formed descriptor and may dangle; other media types are opaque *)
  Definition wf_present (st : state) (r media data : bytes) : Prop :=
    if beqb media MT_IMAGE then
      exists m, decode_image data = Some m /\
        (forall de, In de (im_layers m ++ [im_config m]) ->
                    ref_wf valid_digest de = true /\ iblob st r (d_digest de) <> None) /\
        (forall sd, im_subject m = Some sd -> ref_wf valid_digest sd = true)
    else if beqb media MT_INDEX then
      exists m, decode_index data = Some m /\
        (forall de, In de (ix_manifests m) ->
                    ref_wf valid_digest de = true /\ iman st r (d_digest de) <> None) /\
        (forall sd, ix_subject m = Some sd -> ref_wf valid_digest sd = true)
    else True.
End Accept.
