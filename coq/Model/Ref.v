(* Model of ociregistry/ociref/reference.go (reference grammar, the four validity predicates,
   Parse / ParseRelative, Reference.String), of go-digest v1.0.0 Digest.Validate /
   Algorithm.Available / Algorithm.Validate which IsValidDigest and ParseRelative call, of
   the three deprecated wrappers in ociregistry/valid.go, and of the places where
   internal/ocirequest/request.go applies the predicates to pieces of a URL path.

   What is data here: the regular expressions, built from the same named constants and in
   the same nesting as the Go string concatenation.  What is code here: checkTag's byte
   loop, Validate's index arithmetic, ParseRelative's post-checks in the order of the Go
   source, String's conditional writes.  Panic sites: the only indexing of a string in the
   anchored code is checkTag's s[0]; it is an explicit [Panic] below.

   How the regexp engine is modelled.
   * hostPat / repoPat / go-digest's anchored patterns are used through MatchString on a
     pattern of the shape ^(?:...)$ : the answer is language membership, computed by the
     derivative matcher of Base/Regex.v (proved equivalent to the declarative semantics).
   * referencePat is used through FindStringSubmatch, whose captures depend on Go's
     leftmost-first choice among the possible parses.  [find_submatch] below is the split
     this particular pattern forces (Proofs/Ref.v proves it sound and complete for the
     pattern's declarative semantics, and that the only freedom among all parses is whether
     the optional host group is taken; the model takes it whenever the whole string can
     still match, which is what a greedy "?" does under leftmost-first).  Go's engine
     itself is an oracle, tied to this by the correspondence runs. *)
From Coq Require Import String.
From OCI Require Export Base.Outcome Base.Regex.

(* ---------- byte constants ---------- *)
Definition b_nl : N := 10.       (* \n *)
Definition b_plus : N := 43.     (* + *)
Definition b_dash : N := 45.     (* - *)
Definition b_dot : N := 46.      (* . *)
Definition b_slash : N := 47.    (* / *)
Definition b_colon : N := 58.    (* : *)
Definition b_eq : N := 61.       (* = *)
Definition b_at : N := 64.       (* @ *)
Definition b_lbr : N := 91.      (* [ *)
Definition b_rbr : N := 93.      (* ] *)
Definition b_us : N := 95.       (* _ *)

Definition r_lower : N * N := (97, 122).   (* a-z *)
Definition r_upper : N * N := (65, 90).    (* A-Z *)
Definition r_digit : N * N := (48, 57).    (* 0-9 *)
Definition one (c : N) : N * N := (c, c).
Definition pos (rs : list (N * N)) : regex := Chr (mkcls false rs).
Definition neg (rs : list (N * N)) : regex := Chr (mkcls true rs).

(* ---------- reference.go: the grammar constants ---------- *)

(* alphanumeric = [a-z0-9]+ *)
Definition alphanumeric : regex := Plus (pos [r_lower; r_digit]).

(* separator = (?:[._]|__|[-]+) *)
Definition separator : regex :=
  Alt (pos [one b_dot; one b_us]) (Alt (Lit [b_us; b_us]) (Plus (pos [one b_dash]))).

(* domainNameComponent = (?:[a-zA-Z0-9](?:[a-zA-Z0-9-]*[a-zA-Z0-9])?) *)
Definition domainNameComponent : regex :=
  Cat (pos [r_lower; r_upper; r_digit])
      (Opt (Cat (Star (pos [r_lower; r_upper; r_digit; one b_dash]))
                (pos [r_lower; r_upper; r_digit]))).

(* ipv6address = (?:\[[a-fA-F0-9:]+\]) *)
Definition ipv6address : regex :=
  Cat (Byte b_lbr) (Cat (Plus (pos [(97, 102); (65, 70); r_digit; one b_colon])) (Byte b_rbr)).

(* port = [0-9]+ *)
Definition port : regex := Plus (pos [r_digit]).

(* domainName = (?: domainNameComponent (?:\. domainNameComponent)+ ) *)
Definition domainName : regex :=
  Cat domainNameComponent (Plus (Cat (Byte b_dot) domainNameComponent)).

(* host = (?: domainName | ipv6address ) *)
Definition host : regex := Alt domainName ipv6address.

(* domainAndPort = (?: host (?: : port)? | domainNameComponent : port ) *)
Definition domainAndPort : regex :=
  Alt (Cat host (Opt (Cat (Byte b_colon) port)))
      (Cat domainNameComponent (Cat (Byte b_colon) port)).

(* pathComponent = (?: alphanumeric (?: separator alphanumeric)* ) *)
Definition pathComponent : regex := Cat alphanumeric (Star (Cat separator alphanumeric)).

(* repoName = pathComponent (?: / pathComponent)* *)
Definition repoName : regex := Cat pathComponent (Star (Cat (Byte b_slash) pathComponent)).

(* the two capture classes that are not named constants *)
Definition tagCapture : regex := Plus (neg [one b_at]).       (* [^@]+ *)
Definition digestCapture : regex := Plus (neg [one b_nl]).    (* .+   (no s flag: not \n) *)

(* referencePat without its captures:
   ^(?: (?: (domainAndPort) / )? (repoName) (?: :([^@]+) )? (?: @(.+) )? )$ *)
Definition referenceRe : regex :=
  Cat (Opt (Cat domainAndPort (Byte b_slash)))
      (Cat repoName
           (Cat (Opt (Cat (Byte b_colon) tagCapture))
                (Opt (Cat (Byte b_at) digestCapture)))).

(* hostPat = ^(?: domainAndPort )$    repoPat = ^(?: repoName )$ *)
Definition hostPat : regex := domainAndPort.
Definition repoPat : regex := repoName.

(* ---------- go-digest: patterns ---------- *)

(* DigestRegexpAnchored = ^[a-z0-9]+(?:[.+_-][a-z0-9]+)*:[a-zA-Z0-9=_-]+$ *)
Definition digestRegexp : regex :=
  Cat (Plus (pos [r_lower; r_digit]))
      (Cat (Star (Cat (pos [one b_dot; one b_plus; one b_us; one b_dash]) (Plus (pos [r_lower; r_digit]))))
           (Cat (Byte b_colon)
                (Plus (pos [r_lower; r_upper; r_digit; one b_eq; one b_us; one b_dash])))).

Inductive alg := SHA256 | SHA384 | SHA512.

(* the keys of the maps [algorithms] and [anchoredEncodedRegexps] *)
Definition alg_of (a : bytes) : option alg :=
  if beqb a (s "sha256") then Some SHA256
  else if beqb a (s "sha384") then Some SHA384
  else if beqb a (s "sha512") then Some SHA512
  else None.

Definition alg_name (a : alg) : bytes :=
  match a with SHA256 => s "sha256" | SHA384 => s "sha384" | SHA512 => s "sha512" end.

(* crypto.Hash.Size *)
Definition alg_size (a : alg) : nat :=
  match a with SHA256 => 32 | SHA384 => 48 | SHA512 => 64 end.

(* anchoredEncodedRegexps: ^[a-f0-9]{64}$  {96}  {128} *)
Definition encodedRe (a : alg) : regex := Rep (2 * alg_size a) (pos [(97, 102); r_digit]).

(* ---------- reference.go: Reference and String ---------- *)

Record reference := mkref { r_host : bytes; r_repo : bytes; r_tag : bytes; r_digest : bytes }.

Definition nonempty (w : bytes) : bool := match w with [] => false | _ => true end.

(* func (ref Reference) String() string *)
Definition to_string (r : reference) : bytes :=
  (if nonempty (r_host r) then r_host r ++ [b_slash] else [])
  ++ r_repo r
  ++ (if (0 <? blen (r_tag r))%Z then b_colon :: r_tag r else [])
  ++ (if (0 <? blen (r_digest r))%Z then b_at :: r_digest r else []).

(* ---------- reference.go: checkTag ---------- *)

(* func isWord(c byte) bool *)
Definition is_word (c : N) : bool :=
  (c =? b_us) || ((97 <=? c) && (c <=? 122)) || ((65 <=? c) && (c <=? 90)) || ((48 <=? c) && (c <=? 57)).

Inductive tag_err := TEmpty | TTooLong | TBadStart | TBadChar.

(* for i := 1; i < len(s); i++ { c := s[i]; if !isWord(c) && c != '.' && c != '-' { return error } } *)
Fixpoint check_tag_loop (w : bytes) : R tag_err unit :=
  match w with
  | [] => Ok tt
  | c :: w' =>
      if negb (is_word c) && negb (c =? b_dot) && negb (c =? b_dash) then Err TBadChar
      else check_tag_loop w'
  end.

(* checkTag as it was before the repair: s[0] is read whatever the length (the Go
   runtime panics with "index out of range [0] with length 0") *)
Definition check_tag_unrepaired (w : bytes) : R tag_err unit :=
  if (128 <? blen w)%Z then Err TTooLong
  else match w with
       | [] => Panic
       | c0 :: rest => if negb (is_word c0) then Err TBadStart else check_tag_loop rest
       end.

(* checkTag as it is now (fix: reject the empty tag first).  The index expression s[0] is
   still a panic site of the language; that it is unreachable is a theorem, not a
   consequence of how this is written. *)
Definition check_tag (w : bytes) : R tag_err unit :=
  if (blen w =? 0)%Z then Err TEmpty
  else if (128 <? blen w)%Z then Err TTooLong
  else match w with
       | [] => Panic
       | c0 :: rest => if negb (is_word c0) then Err TBadStart else check_tag_loop rest
       end.

(* ---------- reference.go: the predicates that do not involve digests ---------- *)

(* func IsValidHost(s string) bool { return hostPat().MatchString(s) } *)
Definition is_valid_host (w : bytes) : R unit bool := Ok (matches hostPat w).

(* func IsValidRepository(s string) bool { return repoPat().MatchString(s) } *)
Definition is_valid_repository (w : bytes) : R unit bool := Ok (matches repoPat w).

(* func IsValidTag(s string) bool { return checkTag(s) == nil } *)
Definition is_valid_tag (w : bytes) : R unit bool :=
  match check_tag w with
  | Ok _ => Ok true
  | Err _ => Ok false
  | Panic => Panic
  | OutOfFuel => OutOfFuel
  end.

(* ---------- referencePat().FindStringSubmatch ---------- *)

(* longest prefix whose bytes satisfy p, and the rest *)
Fixpoint span (p : N -> bool) (w : bytes) : bytes * bytes :=
  match w with
  | [] => ([], [])
  | c :: w' => if p c then let (a, b) := span p w' in (c :: a, b) else ([], w)
  end.

(* (.+)$ : non-empty, no newline *)
Definition digest_capture_ok (d : bytes) : bool :=
  nonempty d && forallb (fun c => negb (c =? b_nl)) d.

(* what follows the repository:  (?: :([^@]+) )? (?: @(.+) )? $   Returns (tag, digest). *)
Definition split_suffix (a : bytes) : option (bytes * bytes) :=
  match a with
  | [] => Some ([], [])
  | c :: a' =>
      if c =? b_colon then
        let (t, b) := span (fun c => negb (c =? b_at)) a' in
        if negb (nonempty t) then None
        else match b with
             | [] => Some (t, [])
             | _ :: d => if digest_capture_ok d then Some (t, d) else None
             end
      else if c =? b_at then
        if digest_capture_ok a' then Some ([], a') else None
      else None
  end.

(* (repoName) (?: :([^@]+) )? (?: @(.+) )? $ : a repository name contains neither ':' nor
   '@' and must be followed by ':', '@' or the end, so it is the prefix up to the first
   ':' or '@'.  Returns (repository, tag, digest). *)
Definition split_rest (w : bytes) : option (bytes * bytes * bytes) :=
  let (r, a) := span (fun c => negb (c =? b_colon) && negb (c =? b_at)) w in
  if negb (matches repoName r) then None
  else match split_suffix a with
       | Some (t, d) => Some (r, t, d)
       | None => None
       end.

(* the host alternative: a host contains no '/' and is followed by '/', so it is the
   prefix before the first '/' *)
Definition split_with_host (w : bytes) : option (bytes * bytes * bytes * bytes) :=
  match cut_byte b_slash w with
  | Some (h, rest) =>
      if matches domainAndPort h then
        match split_rest rest with
        | Some (r, t, d) => Some (h, r, t, d)
        | None => None
        end
      else None
  | None => None
  end.

(* m := referencePat().FindStringSubmatch(refStr): (m[1], m[2], m[3], m[4]) or nil.
   Leftmost-first: the optional host group is greedy, so a parse that takes it has
   priority over one that does not. *)
Definition find_submatch (w : bytes) : option (bytes * bytes * bytes * bytes) :=
  match split_with_host w with
  | Some m => Some m
  | None =>
      match split_rest w with
      | Some (r, t, d) => Some ([], r, t, d)
      | None => None
      end
  end.

(* ---------- go-digest and everything that depends on it ---------- *)

Inductive digest_err := DInvalidFormat | DInvalidLength | DUnsupported.

Inductive parse_err :=
  | ESyntax                      (* invalid reference syntax *)
  | EDigest (e : digest_err)     (* invalid digest ...: ... *)
  | ETag (e : tag_err)
  | ERepoTooLong
  | ENoHost.                     (* Parse only: reference does not contain host name *)

Inductive ref_class := RDigest | RTag | RNotFound.

Section Digest.
  (* crypto.Hash.Available: whether the hash implementation is linked into the binary
     (go-digest imports none; ociref imports none).  External to the anchored code. *)
  Variable linked : alg -> bool.

  (* func (a Algorithm) Available() bool *)
  Definition available (a : bytes) : bool :=
    match alg_of a with
    | None => false
    | Some g => linked g
    end.

  (* func (a Algorithm) Validate(encoded string) error *)
  Definition alg_validate (a : bytes) (encoded : bytes) : R digest_err unit :=
    match alg_of a with
    | None => Err DUnsupported
    | Some g =>
        if negb (Nat.eqb (alg_size g * 2) (length encoded)) then Err DInvalidLength
        else if matches (encodedRe g) encoded then Ok tt
        else Err DInvalidFormat
    end.

  (* func (d Digest) Validate() error
       i := strings.Index(s, ":")
       if i <= 0 || i+1 == len(s) { return ErrDigestInvalidFormat }
       algorithm, encoded := Algorithm(s[:i]), s[i+1:]
     [cut_byte] returns (s[:i], s[i+1:]) for the first ':' ; i <= 0 is "no colon or empty
     s[:i]", i+1 == len(s) is "empty s[i+1:]". *)
  Definition digest_validate (d : bytes) : R digest_err unit :=
    match cut_byte b_colon d with
    | None => Err DInvalidFormat
    | Some (algorithm, encoded) =>
        if negb (nonempty algorithm) || negb (nonempty encoded) then Err DInvalidFormat
        else if negb (available algorithm) then
          if negb (matches digestRegexp d) then Err DInvalidFormat else Err DUnsupported
        else alg_validate algorithm encoded
    end.

  (* func IsValidDigest(d string) bool { _, err := digest.Parse(d); return err == nil } *)
  Definition is_valid_digest (d : bytes) : R unit bool :=
    match digest_validate d with
    | Ok _ => Ok true
    | Err _ => Ok false
    | Panic => Panic
    | OutOfFuel => OutOfFuel
    end.

  Definition lift_err {E E' A} (f : E -> E') (r : R E A) : R E' A :=
    match r with
    | Ok a => Ok a
    | Err e => Err (f e)
    | Panic => Panic
    | OutOfFuel => OutOfFuel
    end.

  (* func ParseRelative(refStr string) (Reference, error) *)
  Definition parse_relative (w : bytes) : R parse_err reference :=
    match find_submatch w with
    | None => Err ESyntax
    | Some (h, r, t, d) =>
        do _ <- (if (0 <? blen d)%Z then lift_err EDigest (digest_validate d) else Ok tt);
        do _ <- (if (0 <? blen t)%Z then lift_err ETag (check_tag t) else Ok tt);
        if (255 <? blen r)%Z then Err ERepoTooLong
        else Ok (mkref h r t d)
    end.

  (* func Parse(refStr string) (Reference, error) *)
  Definition parse (w : bytes) : R parse_err reference :=
    do ref <- parse_relative w;
    if negb (nonempty (r_host ref)) then Err ENoHost else Ok ref.

  (* ---------- ociregistry/valid.go ---------- *)
  Definition root_is_valid_repo_name (w : bytes) : R unit bool := is_valid_repository w.
  Definition root_is_valid_tag (w : bytes) : R unit bool := is_valid_tag w.
  Definition root_is_valid_digest (w : bytes) : R unit bool := is_valid_digest w.

  (* ---------- internal/ocirequest/request.go: uses of the predicates ----------
     The router applies exactly these functions to pieces of the URL path:
       rreq.Repo                         -> ociref.IsValidRepository
       last element under blobs/, referrers/, ?digest=, ?mount= -> ociref.IsValidDigest
       last element under manifests/     -> the switch below.
     The full dispatch (which piece of which path) is the model of C06; here are the
     validators it calls. *)
  Definition router_valid_repo (w : bytes) : R unit bool := is_valid_repository w.
  Definition router_valid_digest (w : bytes) : R unit bool := is_valid_digest w.

  (*  switch {
      case ociref.IsValidDigest(last): rreq.Digest = last
      case ociref.IsValidTag(last):    rreq.Tag = last
      default:                         return nil, ErrNotFound } *)
  Definition router_manifest_ref (last : bytes) : R unit ref_class :=
    do isd <- is_valid_digest last;
    if isd then Ok RDigest
    else do ist <- is_valid_tag last;
         if ist then Ok RTag else Ok RNotFound.

End Digest.
