(* Model of ociregistry/func.go + iter.go ErrorSeq as a caller sees them OVER TIME (property C20).

   Model/Funcs.v gives the outcome of one call as data.  This file adds the three things a
   single outcome cannot show:

   * the context argument.  Every method hands its ctx, untouched, either to the field function
     or to the error constructor and never looks at it (no ctx.Err(), no derived context):

         func (f *Funcs) newError(ctx, methodName, repo) error {
             if f != nil && f.NewError != nil { return f.NewError(ctx, methodName, repo) }
             return fmt.Errorf("%s: %w", methodName, ErrUnsupported)
         }

     A context is an opaque identity here ([bytes]: the label the harness gave the value); whether
     it is live, cancelled or past its deadline is not an input of any function below.

   * the iterator value.  An unset iterator method returns ErrorSeq(err) with err computed at the
     time of the call:

         func ErrorSeq[T any](err error) Seq[T] {
             return func(yield func(T, error) bool) { yield(zeroT, err) }
         }                                   (zeroT is the zero value of T)

     The closure has no state and ignores what yield answers: every traversal, by any consumer,
     is one yield of (zero, err).

   * history.  No method writes to the table (and a nil table has nothing to write to), so a
     sequence of calls is the sequence of the single calls: [run] threads no state. *)
From Coq Require Import String.
From OCI Require Export Base.Outcome Model.Funcs.

(* an error value a method can produce *)
Inductive errv :=
  | ECtorErr (ctx name repo : bytes)   (* what NewError(ctx, name, repo) returned, as it is *)
  | EUnsup (name : bytes).             (* fmt.Errorf("%s: %w", name, ErrUnsupported) *)

(* what one method call returns *)
Inductive ret :=
  | RPanic
  | RDelegated (field : method) (ctx : bytes) (args : list bytes)
      (* field called once with exactly these; the method's results are the field's results *)
  | RError (e : errv)                  (* zero results and e *)
  | RErrorSeq (e : errv).              (* ErrorSeq(e) *)

(* (f *Funcs) newError *)
Definition new_error_v (t : table) (ctx name repo : bytes) : errv :=
  if negb (t_nil t) && t_ctor t then ECtorErr ctx name repo else EUnsup name.

(* the method body: guard, delegate, else the error; same per-method data as Model/Funcs.v *)
Definition invoke (t : table) (m : method) (ctx : bytes) (args : list bytes) : ret :=
  if field_set t (guard m) then
    (if field_set t (callee m) then RDelegated (callee m) ctx args else RPanic)
  else
    let e := new_error_v t ctx (err_name m)
               (match err_repo_arg m with Some i => nth i args [] | None => [] end) in
    if is_iter m then RErrorSeq e else RError e.

(* how a consumer drives a traversal: answers true to every yield, answers false to the first
   one, or is ociregistry.All (false at the first non-nil error) *)
Inductive consumer := KGoOn | KStop | KAll.

(* ErrorSeq(e) traversed once by consumer k: the errors carried by the yields made (the item is
   always the zero value).  One yield; the answer is not looked at. *)
Definition traverse_error_seq (e : errv) (k : consumer) : list errv := [e].

(* ---- a history: calls made one after the other on the same table value ---- *)

Record step := {
  s_m : method;
  s_ctx : bytes;
  s_args : list bytes;
  s_results : N;                (* which kind of results the field functions give during this call
                                   (the harness's numbering); not an input of any function here:
                                   a set field's results are handed back whatever they are *)
  s_trav : list consumer        (* the traversals made, in order, of the Seq the call returned *)
}.

(* one yield as the caller sees it *)
Inductive yobs :=
  | YErr (e : errv)             (* zero item and this error *)
  | YOther (what : bytes).      (* an item, or an error that is neither of the two *)

(* what the caller sees of one step *)
Inductive sobs :=
  | SPanic
  | SDelegated (f : method) (ctx : bytes) (args : list bytes)
  | SError (e : errv)
  | SSeq (travs : list (list yobs))      (* per traversal, the yields *)
  | SOther (what : bytes).

Definition run_step (t : table) (st : step) : sobs :=
  match invoke t (s_m st) (s_ctx st) (s_args st) with
  | RPanic => SPanic
  | RDelegated f c a => SDelegated f c a
  | RError e => SError e
  | RErrorSeq e => SSeq (map (fun k => map YErr (traverse_error_seq e k)) (s_trav st))
  end.

Definition run (t : table) (steps : list step) : list sobs := map (run_step t) steps.

(* ---- link with the one-call model of Model/Funcs.v ---- *)

Definition erase_err (e : errv) (yields : N) : outcome :=
  match e with
  | ECtorErr _ n r => CCtorError n r yields
  | EUnsup n => CUnsupported n yields
  end.

Definition erase (r : ret) : outcome :=
  match r with
  | RPanic => CPanic
  | RDelegated f _ a => CDelegated f a
  | RError e => erase_err e 0
  | RErrorSeq e => erase_err e (N.of_nat (List.length (traverse_error_seq e KGoOn)))
  end.
