(* The composed model of C03:   ociclient  o  (wire)  o  ociserver  o  backend.

     Model/Client.v   ociclient, parametric in a server [serve : Srv -> Http.hreq -> Srv * option Http.hresp],
                      URLs symbolic ([Http.url])
     Model/Server.v   ociserver, [handle : B -> Server.hreq -> B * list ev * R unit Server.hresp] over an
                      arbitrary backend [bstep : B -> op -> B * bres]
     Model/Request.v  ocirequest: [construct], [url_parse_v2], [parse_req]

   This file is the adapter between the two (what net/http and net/url do between
   http.Client.Do on one side and Handler.ServeHTTP on the other) and the composition.

   The wire, as far as the two models look at it:

     URL      the client holds a *url.URL; the request line carries u.EscapedPath() and u.RawQuery, the
              server's req.URL has Path = the unescaped request path and the same RawQuery.  unescape
              inverts EscapedPath, so the server sees exactly (u.Path, u.RawQuery): [interp_url] computes
              that pair for each symbolic URL the client model builds.  Scheme and host are the client's
              and are not modelled (a Location is taken relative to them).  u.ForceQuery (a bare trailing
              "?") is not tracked: urlWithDigest produces the same RawQuery with and without it, and the
              request line "path?" gives the server an empty RawQuery.
     request  method; Range / Content-Range / Content-Type headers; Request.ContentLength as
              net/http frames it (outgoingLength: 0 without a body, the declared length when it is
              positive - the transport refuses a body of another length -, otherwise chunked = -1 on
              the server side); the body bytes.
     response status; the handler's headers; Response.ContentLength as net/http's client computes it
              (the Content-Length header if it is a non-negative integer; HEAD: no body; 1xx/204/304:
              length 0, no body; no header: the server adds one when the whole body fits its 2048
              byte buffer, else chunked = -1); the body held to a declared Content-Length (the server
              refuses to write more, the client's read fails when there is less).
              Not modelled: Content-Type sniffing and the Date header the server adds (the client
              reads neither), Expect: 100-continue, a server panic is a transport error for the
              client (the connection is closed) and is flagged in the server state.

   One set of primitive oracles serves both sides: [linked] (which hashes are linked in),
   [hash] (algorithm name, data -> hex), [subject_of] (the "subject" of a manifest), [media]
   (mime.ParseMediaType), the JSON encoder [enc] of the server and the three decoders of the
   client, [redirect] (http.Redirect).  The client's derived oracles ([stack_env]) are computed
   from them with the SAME functions the server uses: Construct (Model/Request.v) for
   e_construct_ok, url_parse_v2 for e_url_ok, is_valid_digest (Model/Ref.v) for e_valid_digest.

   Strings outside the class url_parse_v2 models (they do not begin with "/v2/"), and a Location
   with dot segments (ResolveReference would rewrite it), are [OutOfFuel] = outside the model: the
   request is not served and the server state is flagged [sv_outside].  Proofs/Stack*.v show the
   in-repo server never makes the client produce one. *)
From Coq Require Import String.
From OCI Require Export Base.Outcome Model.Iface Model.Errors.
From OCI Require Export Model.Http Model.Client Model.Request Model.Server.

Local Open Scope Z_scope.

(* ================================================================ Http.rreq <-> Request.request *)

Definition kind_of (k : Http.kind) : Request.kind :=
  match k with
  | Http.ReqPing => Request.ReqPing
  | Http.ReqBlobGet => Request.ReqBlobGet
  | Http.ReqBlobHead => Request.ReqBlobHead
  | Http.ReqBlobDelete => Request.ReqBlobDelete
  | Http.ReqBlobStartUpload => Request.ReqBlobStartUpload
  | Http.ReqBlobUploadBlob => Request.ReqBlobUploadBlob
  | Http.ReqBlobMount => Request.ReqBlobMount
  | Http.ReqBlobUploadInfo => Request.ReqBlobUploadInfo
  | Http.ReqBlobUploadChunk => Request.ReqBlobUploadChunk
  | Http.ReqBlobCompleteUpload => Request.ReqBlobCompleteUpload
  | Http.ReqManifestGet => Request.ReqManifestGet
  | Http.ReqManifestHead => Request.ReqManifestHead
  | Http.ReqManifestPut => Request.ReqManifestPut
  | Http.ReqManifestDelete => Request.ReqManifestDelete
  | Http.ReqTagsList => Request.ReqTagsList
  | Http.ReqReferrersList => Request.ReqReferrersList
  | Http.ReqCatalogList => Request.ReqCatalogList
  end.

Definition kind_to (k : Request.kind) : Http.kind :=
  match k with
  | Request.ReqPing => Http.ReqPing
  | Request.ReqBlobGet => Http.ReqBlobGet
  | Request.ReqBlobHead => Http.ReqBlobHead
  | Request.ReqBlobDelete => Http.ReqBlobDelete
  | Request.ReqBlobStartUpload => Http.ReqBlobStartUpload
  | Request.ReqBlobUploadBlob => Http.ReqBlobUploadBlob
  | Request.ReqBlobMount => Http.ReqBlobMount
  | Request.ReqBlobUploadInfo => Http.ReqBlobUploadInfo
  | Request.ReqBlobUploadChunk => Http.ReqBlobUploadChunk
  | Request.ReqBlobCompleteUpload => Http.ReqBlobCompleteUpload
  | Request.ReqManifestGet => Http.ReqManifestGet
  | Request.ReqManifestHead => Http.ReqManifestHead
  | Request.ReqManifestPut => Http.ReqManifestPut
  | Request.ReqManifestDelete => Http.ReqManifestDelete
  | Request.ReqTagsList => Http.ReqTagsList
  | Request.ReqReferrersList => Http.ReqReferrersList
  | Request.ReqCatalogList => Http.ReqCatalogList
  end.

(* the ocirequest.Request the client's rreq stands for (the two records have the same fields) *)
Definition req_of (q : Http.rreq) : Request.request :=
  mkreq (kind_of (Http.q_kind q)) (Http.q_repo q) (Http.q_digest q) (Http.q_tag q) (Http.q_from q)
        (Http.q_upload q) (Http.q_n q) (Http.q_last q).

Definition rreq_of (r : Request.request) : Http.rreq :=
  {| Http.q_kind := kind_to (Request.q_kind r); Http.q_repo := Request.q_repo r;
     Http.q_digest := Request.q_digest r; Http.q_tag := Request.q_tag r; Http.q_from := Request.q_from r;
     Http.q_upload := Request.q_upload r; Http.q_n := Request.q_listn r; Http.q_last := Request.q_last r |}.

Definition meth_bytes (m : meth) : bytes :=
  match m with
  | MGet => m_GET | MHead => m_HEAD | MPost => m_POST | MPut => m_PUT | MPatch => m_PATCH
  | MDelete => m_DELETE
  end.

(* ================================================================ net/url *)

(* the escaped path of a reference string: before the first "#", before the first "?" *)
Definition ref_escaped_path (ref : bytes) : bytes :=
  fst (cut_or_all 63%N (fst (cut_or_all 35%N ref))).

(* no "." or ".." segment: resolvePath (remove_dot_segments) leaves such a path alone *)
Definition dot_free (p : bytes) : bool :=
  negb (existsb (fun seg => beqb seg [46%N] || beqb seg [46%N; 46%N]) (split_byte 47%N p)).

(* urlWithDigest: ForceQuery or an empty RawQuery give "digest=" + QueryEscape(d); otherwise
   "&digest=" + QueryEscape(d) is appended to the query as it stands *)
Definition query_with_digest (q d : bytes) : bytes :=
  match q with
  | [] => s "digest=" ++ query_escape d
  | _ => q ++ s "&digest=" ++ query_escape d
  end.

(* (Path, RawQuery) of the URL the client sends the request to.
     UReq q      url.Parse of the string Construct built (http.NewRequestWithContext)
     UId id      url.Parse(id): an upload location handed out earlier
     URef b ref  b.ResolveReference(url.Parse(ref)) for an absolute-path reference (no scheme, no
                 host, a path that begins with "/v2/" and has no dot segments): path and query are
                 the reference's; nothing of the base but scheme and host survives
     UDigest u d urlWithDigest(u, d) *)
Fixpoint interp_url (u : url) : R unit (bytes * bytes) :=
  match u with
  | UReq q => url_parse_v2 (snd (construct (req_of q)))
  | UId id => url_parse_v2 id
  | URef _ ref => if dot_free (ref_escaped_path ref) then url_parse_v2 ref else OutOfFuel
  | UDigest u' d =>
      match interp_url u' with
      | Ok (p, q) => Ok (p, query_with_digest q d)
      | other => other
      end
  end.

(* URL.String() without scheme and host: EscapedPath, then "?" RawQuery when there is one.
   This is what BlobWriter.ID returns (relative to the client's host). *)
Definition url_string (u : url) : R unit bytes :=
  match interp_url u with
  | Ok (p, q) => Ok (path_escape_mode p ++ match q with [] => [] | _ => 63%N :: q end)
  | Err e => Err e
  | Panic => Panic
  | OutOfFuel => OutOfFuel
  end.

(* ================================================================ the request on the wire *)

Definition body_bytes (b : reqbody) : bytes :=
  match b with BData d _ => d | _ => [] end.

(* Err = the transport returns an error (url.Parse failed on the way in; the body does not have
   the declared length: "http: ContentLength=n with Body length m") *)
Definition to_server_req (rq : Http.hreq) : R unit Server.hreq :=
  match interp_url (rq_url rq) with
  | Ok (p, q) =>
      let data := body_bytes (rq_body rq) in
      let ol := outgoing_length rq in
      if (0 <? ol) && negb (ol =? blen data) then Err tt
      else Ok (mkhreq (meth_bytes (rq_method rq)) p q
                      (Http.hget h_range (rq_header rq))
                      (Http.hget h_content_range (rq_header rq))
                      (Http.hget h_content_type (rq_header rq))
                      (if ol <? 0 then -1 else ol)
                      data)
  | Err e => Err e
  | Panic => Panic
  | OutOfFuel => OutOfFuel
  end.

(* ================================================================ the response on the wire *)

(* bodyAllowedForStatus *)
Definition no_body_status (st : Z) : bool :=
  ((100 <=? st) && (st <=? 199)) || (st =? 204) || (st =? 304).

(* the Content-Length the handler set, when net/http keeps it *)
Definition declared_length (h : Server.headers) : option Z :=
  match Server.hget H_clen h with
  | Some v => match parse_int v with
              | Some n => if 0 <=? n then Some n else None
              | None => None
              end
  | None => None
  end.

Definition buffer_before_chunking : Z := 2048.

Definition of_server_resp (m : meth) (r : Server.hresp) : Http.hresp :=
  let dl := declared_length (p_hdrs r) in
  if meth_eqb m MHead then
    {| rs_status := p_status r; rs_header := p_hdrs r;
       rs_clen := match dl with Some n => n | None => -1 end;
       rs_body := {| b_data := []; b_fail := false |} |}
  else if no_body_status (p_status r) then
    {| rs_status := p_status r; rs_header := p_hdrs r; rs_clen := 0;
       rs_body := {| b_data := []; b_fail := false |} |}
  else
    match dl with
    | Some n =>
        {| rs_status := p_status r; rs_header := p_hdrs r; rs_clen := n;
           rs_body := {| b_data := firstn (Z.to_nat n) (p_body r); b_fail := blen (p_body r) <? n |} |}
    | None =>
        {| rs_status := p_status r; rs_header := p_hdrs r;
           rs_clen := if blen (p_body r) <=? buffer_before_chunking then blen (p_body r) else -1;
           rs_body := {| b_data := p_body r; b_fail := false |} |}
    end.

(* ================================================================ the composition *)

(* the state behind the client's transport: the backend, the backend events so far (oldest
   first), whether a handler panicked, whether a request left the modelled class *)
Record srv (B : Type) := mksrv { sv_b : B; sv_tr : list ev; sv_panic : bool; sv_outside : bool }.
Arguments mksrv {B}. Arguments sv_b {B}. Arguments sv_tr {B}. Arguments sv_panic {B}. Arguments sv_outside {B}.

Definition srv0 {B} (b : B) : srv B := mksrv b [] false false.

(* what the client keeps between the calls of a history: its writers, by handle *)
Record sstate (B : Type) := mksstate { st_srv : srv B; st_writers : list writer }.
Arguments mksstate {B}. Arguments st_srv {B}. Arguments st_writers {B}.

Definition sstate0 {B} (b : B) : sstate B := mksstate (srv0 b) [].

(* client-side configuration of a stack *)
Record ccfg := mkccfg {
  cc_page : Z;          (* Options.ListPageSize *)
  cc_bufsz : nat;       (* the caller's Read buffer *)
  cc_fuel : nat         (* bound on the pages of one listing *)
}.

Definition sha256_prefix : bytes := s "sha256:".

Section Stack.
  (* primitive oracles, shared by both sides *)
  Variable linked : alg -> bool.
  Variable hash : bytes -> bytes -> bytes.                    (* algorithm name, data: hex *)
  Variable subject_of : bytes -> option (option bytes).
  Variable media : bytes -> bytes.                            (* mime.ParseMediaType *)
  Variable enc : jval -> bytes.                               (* json.Marshal (server) *)
  Variable dec_errors : bytes -> option (list werr).          (* json.Unmarshal (client) *)
  Variable dec_names : bool -> bytes -> option (list bytes).
  Variable dec_index : bytes -> option (list desc).
  Variable redirect : bytes -> bytes -> bytes * bytes.

  (* digest.FromBytes: sha256 *)
  Definition digest_of (data : bytes) : bytes := sha256_prefix ++ hash sha256_name data.

  Definition construct_ok (q : rreq) : bool :=
    match Construct linked (req_of q) with Ok _ => true | _ => false end.

  (* url.Parse succeeds; a string outside the modelled class is let through and caught by
     [interp_url] when it is used *)
  Definition url_ok (u : bytes) : bool :=
    match url_parse_v2 u with Err _ => false | _ => true end.

  Definition url_rooted (u : bytes) : bool :=
    match url_parse_v2 u with Ok (p, _) => has_prefix [47%N] p | _ => true end.

  Definition available (a : bytes) : bool :=
    match alg_of a with Some al => linked al | None => false end.

  Definition stack_env : env :=
    {| e_construct_ok := construct_ok;
       e_url_ok := url_ok;
       e_url_rooted := url_rooted;
       e_valid_digest := vdigest linked;
       e_available := available;
       e_hashhex := hash;
       e_media := media;
       e_json_errors := dec_errors;
       e_json_names := dec_names;
       e_json_index := dec_index |}.

  Variable B : Type.
  Variable bstep : backend B.
  Variable o : opts.

  Definition server_handle : B -> Server.hreq -> B * list ev * R unit Server.hresp :=
    handle linked digest_of subject_of enc redirect B bstep o.

  (* one RoundTrip *)
  Definition serve_stack (st : srv B) (rq : Http.hreq) : srv B * option Http.hresp :=
    match to_server_req rq with
    | Ok sreq =>
        let '(b', tr, r) := server_handle (sv_b st) sreq in
        let tr' := sv_tr st ++ tr in
        match r with
        | Ok resp => (mksrv b' tr' (sv_panic st) (sv_outside st), Some (of_server_resp (rq_method rq) resp))
        | Err _ => (mksrv b' tr' (sv_panic st) (sv_outside st), None)
        | Panic => (mksrv b' tr' true (sv_outside st), None)
        | OutOfFuel => (mksrv b' tr' (sv_panic st) true, None)
        end
    | Err _ => (st, None)
    | Panic => (mksrv (sv_b st) (sv_tr st) true (sv_outside st), None)
    | OutOfFuel => (mksrv (sv_b st) (sv_tr st) (sv_panic st) true, None)
    end.

  Variable cc : ccfg.

  Definition stack_client : client := new_client current (cc_page cc).

  (* one call of a client method, start to end *)
  Definition stack_call (cl : Client.call) (w : world (srv B)) : world (srv B) * outcome :=
    Client.run (srv B) serve_stack stack_env current stack_client (cc_fuel cc) cl w.

  (* ============================================================== the stack as a backend *)

  (* The client in front of the server in front of [bstep], seen through the vocabulary of
     Model/Server.v's backends: one step per Interface call or BlobWriter call.  The request log
     of the client model and the backend trace are started afresh for each call: afterwards
     [sv_tr] holds the backend events of that call. *)

  Notation W := (world (srv B)).

  Definition start (st : sstate B) : W :=
    init_world (mksrv (sv_b (st_srv st)) [] (sv_panic (st_srv st)) (sv_outside (st_srv st))).

  Definition lift_res {A} (r : R gerr A) (f : A -> bval) : bres :=
    match r with
    | Ok a => Ok (f a)
    | Err e => Err e
    | Panic => Panic
    | OutOfFuel => OutOfFuel
    end.

  (* a BlobReader drained: the bytes when the stream ended with io.EOF, else the error of the
     failing Read (reported as the error of the call) *)
  Definition read_res (r : R gerr (desc * bytes * rend)) : bres :=
    match r with
    | Ok (d, data, RdEOF) => Ok (VRead d data)
    | Ok (_, _, RdErr e) => Err e
    | Ok (_, _, RdMore) => OutOfFuel
    | Err e => Err e
    | Panic => Panic
    | OutOfFuel => OutOfFuel
    end.

  (* an iterator drained: items, then maybe an error *)
  Fixpoint split_yields {A} (ys : list (A + gerr)) : list A * option gerr :=
    match ys with
    | [] => ([], None)
    | inl a :: r => let '(l, e) := split_yields r in (a :: l, e)
    | inr e :: _ => ([], Some e)
    end.

  Definition names_res (x : list (bytes + gerr) * pend) : bres :=
    match snd x with
    | PDone => let '(l, e) := split_yields (fst x) in Ok (VList l e)
    | PPanic => Panic
    | PFuel => OutOfFuel
    end.

  Definition descs_res (x : list (desc + gerr) * pend) : bres :=
    match snd x with
    | PDone => let '(l, e) := split_yields (fst x) in Ok (VDescs l e)
    | PPanic => Panic
    | PFuel => OutOfFuel
    end.

  Fixpoint set_nth {A} (i : nat) (a : A) (l : list A) : list A :=
    match l, i with
    | [], _ => []
    | _ :: r, O => a :: r
    | b :: r, S i' => b :: set_nth i' a r
    end.

  Definition no_such_writer : gerr := Plain (s "no such writer").

  Definition with_srv (st : sstate B) (w : W) : sstate B := mksstate (w_srv w) (st_writers st).

  (* a new writer gets the next handle *)
  Definition new_writer (st : sstate B) (x : W * R gerr writer) : sstate B * bres :=
    let '(w, r) := x in
    match r with
    | Ok wr => (mksstate (w_srv w) (st_writers st ++ [wr]), Ok (VWriter (N.of_nat (length (st_writers st)))))
    | Err e => (with_srv st w, Err e)
    | Panic => (with_srv st w, Panic)
    | OutOfFuel => (with_srv st w, OutOfFuel)
    end.

  Definition wres_bres (r : wres) : bres :=
    match r with
    | WrInt (Ok n) => Ok (VN n)
    | WrInt (Err e) => Err e
    | WrInt Panic => Panic
    | WrInt OutOfFuel => OutOfFuel
    | WrDesc (Ok d) => Ok (VDesc d)
    | WrDesc (Err e) => Err e
    | WrDesc Panic => Panic
    | WrDesc OutOfFuel => OutOfFuel
    end.

  Definition unit_of (r : bres) : bres := match r with Ok _ => Ok VUnit | other => other end.

  Definition on_writer (st : sstate B) (h : wid) (wo : wop) : sstate B * bres :=
    match nth_error (st_writers st) (N.to_nat h) with
    | None => (st, Err no_such_writer)
    | Some wr =>
        let '(w, (wr', r)) := writer_op (srv B) serve_stack stack_env current wr wo (start st) in
        (mksstate (w_srv w) (set_nth (N.to_nat h) wr' (st_writers st)), wres_bres r)
    end.

  Definition raw_step (st : sstate B) (c : op) : sstate B * bres :=
    let M1 {A} (m : M (srv B) A) (f : A -> bval) : sstate B * bres :=
      let '(w, r) := m (start st) in (with_srv st w, lift_res r f) in
    let RD (m : M (srv B) blob_reader) : sstate B * bres :=
      let '(w, r) := read_and_drain (srv B) stack_env m (cc_bufsz cc) (start st) in
      (with_srv st w, read_res r) in
    match c with
    | GetBlob r d => RD (get_blob (srv B) serve_stack stack_env current r d)
    | GetBlobRange r d o0 o1 => RD (get_blob_range (srv B) serve_stack stack_env current r d o0 o1)
    | GetManifest r d => RD (get_manifest (srv B) serve_stack stack_env current r d)
    | GetTag r t => RD (get_tag (srv B) serve_stack stack_env current r t)
    | ResolveBlob r d => M1 (resolve_blob (srv B) serve_stack stack_env current r d) VDesc
    | ResolveManifest r d => M1 (resolve_manifest (srv B) serve_stack stack_env current r d) VDesc
    | ResolveTag r t => M1 (resolve_tag (srv B) serve_stack stack_env current r t) VDesc
    | PushBlob r de content =>
        M1 (push_blob (srv B) serve_stack stack_env r de true true content) VDesc
    | PushBlobChunked r hint =>
        new_writer st (push_blob_chunked (srv B) serve_stack stack_env r hint (start st))
    | PushBlobChunkedResume r id off hint =>
        new_writer st (push_blob_chunked_resume (srv B) serve_stack stack_env r id off hint (start st))
    | MountBlob from to d => M1 (mount_blob (srv B) serve_stack stack_env current from to d) VDesc
    | PushManifest r t content med =>
        M1 (push_manifest (srv B) serve_stack stack_env r t content med) VDesc
    | DeleteBlob r d => M1 (delete_blob (srv B) serve_stack stack_env r d) (fun _ => VUnit)
    | DeleteManifest r d => M1 (delete_manifest (srv B) serve_stack stack_env r d) (fun _ => VUnit)
    | DeleteTag r t => M1 (delete_tag (srv B) serve_stack stack_env r t) (fun _ => VUnit)
    | Repositories start_ =>
        let '(w, x) := repositories (srv B) serve_stack stack_env stack_client (cc_fuel cc) start_ None (start st) in
        (with_srv st w, names_res x)
    | Tags r start_ =>
        let '(w, x) := tags (srv B) serve_stack stack_env stack_client (cc_fuel cc) r start_ None (start st) in
        (with_srv st w, names_res x)
    | Referrers r d art =>
        let '(w, x) := referrers (srv B) serve_stack stack_env stack_client r d art None (start st) in
        (with_srv st w, descs_res x)
    | WWrite h data => on_writer st h (WoWrite data)
    | WClose h => let '(st', r) := on_writer st h WoClose in (st', unit_of r)
    | WSize h => on_writer st h WoSize
    | WChunkSize h => on_writer st h WoChunkSize
    | WCancel h => let '(st', r) := on_writer st h WoCancel in (st', unit_of r)
    | WCommit h d => on_writer st h (WoCommit d)
    | WID h =>
        (st, match nth_error (st_writers st) (N.to_nat h) with
             | None => Err no_such_writer
             | Some wr => match url_string (wr_location wr) with
                          | Ok i => Ok (VStr i)
                          | Err _ => Ok (VStr [])
                          | Panic => Panic
                          | OutOfFuel => OutOfFuel
                          end
             end)
    end.

  (* a call during which a request left the modelled class has no modelled result *)
  Definition clear_outside (v : srv B) : srv B := mksrv (sv_b v) (sv_tr v) (sv_panic v) false.

  Definition stack_bstep : backend (sstate B) :=
    fun st c =>
      let '(st', r) := raw_step st c in
      if sv_outside (st_srv st')
      then (mksstate (clear_outside (st_srv st')) (st_writers st'), OutOfFuel)
      else (st', r).

End Stack.

Arguments serve_stack linked hash subject_of enc redirect {B}.
Arguments stack_call linked hash subject_of media enc dec_errors dec_names dec_index redirect {B}.
Arguments raw_step linked hash subject_of media enc dec_errors dec_names dec_index redirect {B}.
Arguments stack_bstep linked hash subject_of media enc dec_errors dec_names dec_index redirect {B}.

(* ================================================================ the stack as a registry *)

(* An error as the layers above see it (Model/Iface.v [err]): the code errors.As finds
   (ociregistry.Error.Code; "" = no coded error in the tree), and as the tag the status of the
   HTTPError, in decimal, when there is one (for the HEAD carriers, which lose the code). *)
Definition ecode_of_code (c : bytes) : ecode :=
  match c with
  | [] => ENone
  | _ =>
    if beqb c (std_code SBlobUnknown) then BLOB_UNKNOWN
    else if beqb c (std_code SBlobUploadInvalid) then BLOB_UPLOAD_INVALID
    else if beqb c (std_code SBlobUploadUnknown) then BLOB_UPLOAD_UNKNOWN
    else if beqb c (std_code SDigestInvalid) then DIGEST_INVALID
    else if beqb c (std_code SManifestBlobUnknown) then MANIFEST_BLOB_UNKNOWN
    else if beqb c (std_code SManifestInvalid) then MANIFEST_INVALID
    else if beqb c (std_code SManifestUnknown) then MANIFEST_UNKNOWN
    else if beqb c (std_code SNameInvalid) then NAME_INVALID
    else if beqb c (std_code SNameUnknown) then NAME_UNKNOWN
    else if beqb c (std_code SSizeInvalid) then SIZE_INVALID
    else if beqb c (std_code SUnauthorized) then UNAUTHORIZED
    else if beqb c (std_code SDenied) then DENIED
    else if beqb c (std_code SUnsupported) then UNSUPPORTED
    else if beqb c (std_code STooManyRequests) then TOOMANYREQUESTS
    else if beqb c (std_code SRangeInvalid) then RANGE_INVALID
    else ECustom c
  end.

Definition err_of_gerr (e : gerr) : err :=
  E (match as_err e with Some w => ecode_of_code (w_code w) | None => ENone end)
    (match as_http e with Some st => dec_Z st | None => [] end).

Definition res_of_bval (v : bval) : res :=
  match v with
  | VDesc d => RDesc d
  | VRead d data => RRead d data
  | VList l e => RList l (option_map err_of_gerr e)
  | VDescs l e => RDescs l (option_map err_of_gerr e)
  | VWriter w => RWriter w
  | VN n => RN n
  | VStr i => RStr i
  | VUnit => RUnit
  end.

Definition result_of_bres (r : bres) : result :=
  match r with
  | Ok v => Ok (res_of_bval v)
  | Err e => Err (err_of_gerr e)
  | Panic => Panic
  | OutOfFuel => OutOfFuel
  end.

Definition registry_of_backend {St} (b : backend St) : registry St :=
  fun st c => let '(st', r) := b st c in (st', result_of_bres r).

(* ================================================================ the dispatch table *)

(* Which backend calls the server makes for a routed request, as a decision tree over the
   backend's answers: [PCall c k] = call [c], continue with [k answer]; [PEnd fuel] = no further
   call ([fuel]: the handler stopped because a modelled oracle ran out of fuel, in which case a
   deferred Close does not run either). *)
Inductive plan :=
  | PEnd (fuel : bool)
  | PCall (c : op) (k : bres -> plan).

Fixpoint run_plan {B} (bstep : backend B) (b : B) (p : plan) : B * list (op * bres) :=
  match p with
  | PEnd _ => (b, [])
  | PCall c k =>
      let '(b1, r) := bstep b c in
      let '(b2, l) := run_plan bstep b1 (k r) in
      (b2, (c, r) :: l)
  end.

(* p, then q unless p ran out of fuel *)
Fixpoint then_ (p q : plan) : plan :=
  match p with
  | PEnd false => q
  | PEnd true => PEnd true
  | PCall c k => PCall c (fun r => then_ (k r) q)
  end.

Definition end_of {E A} (r : R E A) : plan := match r with OutOfFuel => PEnd true | _ => PEnd false end.

(* one call, nothing after it *)
Definition p_one (c : op) : plan := PCall c (fun r => end_of r).

(* a call whose answer is read through [view] *)
Definition p_last {A} (c : op) (view : bres -> R gerr A) : plan := PCall c (fun r => end_of (view r)).

Definition p_close (w : wid) : plan := p_one (WClose w).

Section Table.
  Variable linked : alg -> bool.
  Variable digest_of : bytes -> bytes.
  Variable subject_of : bytes -> option (option bytes).
  Variable o : opts.

  (* setLocationHeader calls no backend method; Options.LocationsForDescriptor may run out of fuel *)
  Definition p_locs (is_manifest : bool) (d : desc) : plan :=
    match o_locs o with
    | None => PEnd false
    | Some f => end_of (f is_manifest d)
    end.

  (* w.ID(), then the Location header (MustConstruct panics on an ID it cannot put in a URL) *)
  Definition p_location (repo : bytes) (w : wid) (k : plan) : plan :=
    PCall (WID w) (fun rid =>
      match as_str rid with
      | Ok id => match location_for_upload_id linked repo id with
                 | Ok _ => k
                 | other => end_of other
                 end
      | other => end_of other
      end).

  (* io.Copy(w, req.Body): one Write of the whole body, none for an empty body *)
  Definition p_copy (w : wid) (body : bytes) (k : bool -> plan) : plan :=
    match body with
    | [] => k true
    | _ => PCall (WWrite w body) (fun r =>
             match r with
             | Ok v => k (n_of v =? blen body)%Z
             | Err _ => k false
             | Panic => PEnd false
             | OutOfFuel => PEnd true
             end)
    end.

  Definition p_start_upload (repo : bytes) : plan :=
    PCall (PushBlobChunked repo 0) (fun r =>
      match as_writer r with
      | Ok w => then_ (p_location repo w (p_last (WChunkSize w) as_n)) (p_close w)
      | other => end_of other
      end).

  Definition p_blob_get_body (req : Server.hreq) (r : request) : plan :=
    match parse_range_header (hq_range req) with
    | Ok [] => p_one (GetBlob (q_repo r) (q_digest r))
    | Ok [(start, end_)] => p_one (GetBlobRange (q_repo r) (q_digest r) start end_)
    | other => end_of other
    end.

  Definition dispatch_table (req : Server.hreq) (r : request) : plan :=
    match Request.q_kind r with
    | Request.ReqPing => PEnd false
    | Request.ReqBlobGet =>
        match o_locs o with
        | None => p_blob_get_body req r
        | Some f =>
            PCall (ResolveBlob (q_repo r) (q_digest r)) (fun a =>
              match as_desc a with
              | Ok d => match f false d with
                        | Ok [] => p_blob_get_body req r
                        | other => end_of other
                        end
              | other => end_of other
              end)
        end
    | Request.ReqBlobHead => p_one (ResolveBlob (q_repo r) (q_digest r))
    | Request.ReqBlobDelete => p_one (DeleteBlob (q_repo r) (q_digest r))
    | Request.ReqBlobStartUpload => p_start_upload (q_repo r)
    | Request.ReqBlobUploadBlob =>
        if o_disable_single_post o then p_start_upload (q_repo r)
        else PCall (PushBlob (q_repo r)
                      {| d_media := media_octet_stream; d_digest := q_digest r; d_size := hq_clen req;
                         d_artifact := [] |} (hq_body req))
                   (fun a => match as_desc a with Ok d => p_locs false d | other => end_of other end)
    | Request.ReqBlobMount =>
        PCall (MountBlob (q_from r) (q_repo r) (q_digest r))
              (fun a => match as_desc a with Ok d => p_locs true d | other => end_of other end)
    | Request.ReqBlobUploadInfo =>
        PCall (PushBlobChunkedResume (q_repo r) (q_upload r) (-1) 0) (fun a =>
          match as_writer a with
          | Ok w => then_ (p_location (q_repo r) w (p_last (WSize w) as_n)) (p_close w)
          | other => end_of other
          end)
    | Request.ReqBlobUploadChunk =>
        match chunk_range req with
        | Ok (start, end_) =>
            PCall (PushBlobChunkedResume (q_repo r) (q_upload r) start (wrap64 (end_ - start))) (fun a =>
              match as_writer a with
              | Ok w =>
                  p_copy w (hq_body req) (fun copied =>
                    if copied then
                      PCall (WClose w) (fun c =>
                        match as_unit c with
                        | Ok _ => p_location (q_repo r) w (p_last (WSize w) as_n)
                        | other => end_of other
                        end)
                    else p_close w)
              | other => end_of other
              end)
        | other => end_of other
        end
    | Request.ReqBlobCompleteUpload =>
        match chunk_range req with
        | Ok (start, end_) =>
            PCall (PushBlobChunkedResume (q_repo r) (q_upload r) start (wrap64 (end_ - start))) (fun a =>
              match as_writer a with
              | Ok w =>
                  then_ (p_copy w (hq_body req) (fun copied =>
                           if copied then
                             PCall (WCommit w (q_digest r)) (fun c =>
                               match as_desc c with Ok d => p_locs false d | other => end_of other end)
                           else PEnd false))
                        (p_close w)
              | other => end_of other
              end)
        | other => end_of other
        end
    | Request.ReqManifestGet =>
        match q_tag r with
        | _ :: _ => p_one (GetTag (q_repo r) (q_tag r))
        | [] => p_one (GetManifest (q_repo r) (q_digest r))
        end
    | Request.ReqManifestHead =>
        match q_tag r with
        | _ :: _ => p_one (ResolveTag (q_repo r) (q_tag r))
        | [] => p_one (ResolveManifest (q_repo r) (q_digest r))
        end
    | Request.ReqManifestPut =>
        let data := hq_body req in
        let media := match hq_ctype req with [] => media_octet_stream | m => m end in
        let digest_ok := match q_tag r with _ :: _ => true | [] => beqb (q_digest r) (digest_of data) end in
        if negb digest_ok then PEnd false
        else match subject_from_manifest subject_of (hq_ctype req) data with
             | None => PEnd false
             | Some _ =>
                 PCall (PushManifest (q_repo r) (q_tag r) data media)
                       (fun a => match as_desc a with Ok d => p_locs false d | other => end_of other end)
             end
    | Request.ReqManifestDelete =>
        match q_tag r with
        | _ :: _ => p_one (DeleteTag (q_repo r) (q_tag r))
        | [] => p_one (DeleteManifest (q_repo r) (q_digest r))
        end
    | Request.ReqTagsList => p_one (Tags (q_repo r) (Request.q_last r))
    | Request.ReqReferrersList =>
        if o_disable_referrers o then PEnd false else p_one (Referrers (q_repo r) (q_digest r) [])
    | Request.ReqCatalogList => p_one (Repositories (Request.q_last r))
    end.

End Table.

(* the backend calls of a trace, oldest first *)
Fixpoint calls_of (tr : list ev) : list (op * bres) :=
  match tr with
  | [] => []
  | ECall c r :: t => (c, r) :: calls_of t
  | _ :: t => calls_of t
  end.

(* every name in a backend call is a name of the request: the repository is the request's
   (for a mount: from and to, in that order), the digest and the tag are the request's, an
   upload ID is the request's; writer calls act on a handle the backend handed out *)
Definition op_of_request (r : request) (c : op) : bool :=
  match c with
  | GetBlob rp d | ResolveBlob rp d | DeleteBlob rp d | GetManifest rp d | ResolveManifest rp d
  | DeleteManifest rp d | GetBlobRange rp d _ _ => beqb rp (q_repo r) && beqb d (q_digest r)
  | GetTag rp t | ResolveTag rp t | DeleteTag rp t => beqb rp (q_repo r) && beqb t (q_tag r)
  | PushBlob rp de _ => beqb rp (q_repo r) && beqb (d_digest de) (q_digest r)
  | PushBlobChunked rp _ => beqb rp (q_repo r)
  | PushBlobChunkedResume rp id _ _ => beqb rp (q_repo r) && beqb id (q_upload r)
  | MountBlob f t d => beqb f (q_from r) && beqb t (q_repo r) && beqb d (q_digest r)
  | PushManifest rp t _ _ => beqb rp (q_repo r) && beqb t (q_tag r)
  | Repositories st => beqb st (Request.q_last r)
  | Tags rp st => beqb rp (q_repo r) && beqb st (Request.q_last r)
  | Referrers rp d _ => beqb rp (q_repo r) && beqb d (q_digest r)
  | WWrite _ _ | WClose _ | WSize _ | WChunkSize _ | WID _ | WCancel _ => true
  | WCommit _ d => beqb d (q_digest r)
  end.
