(* Specification side of C06 (no reference to the handlers of Model/Server.v):
     - which backends / option callbacks are inside the property's quantifier ([wb_trace],
       [wb_locs]: the Go conventions an ociregistry.Interface implementation follows),
     - what one observed exchange (request, options, trace, response) must satisfy
       ([spec_ok] = status/code agreement, mandated headers, valid backend arguments,
       everything obtained has been closed),
     - decidable equalities used by the correspondence, and the replaying backend. *)
From Coq Require Import String.
From OCI Require Export Base.Outcome Model.Server.

(* ================================================================ equalities *)

Definition werr_eqb (a b : werr) : bool :=
  beqb (w_code a) (w_code b) && beqb (w_msg a) (w_msg b) && option_eqb beqb (w_detail a) (w_detail b).

Fixpoint gerr_eqb (a b : gerr) : bool :=
  match a, b with
  | Wire x, Wire y => werr_eqb x y
  | Wires x, Wires y => list_eqb werr_eqb x y
  | Wrap p x, Wrap q y => beqb p q && gerr_eqb x y
  | Http s1 u1 r1, Http s2 u2 r2 =>
      Z.eqb s1 s2 && Bool.eqb r1 r2
      && match u1, u2 with
         | Some x, Some y => gerr_eqb x y
         | None, None => true
         | _, _ => false
         end
  | Plain x, Plain y => beqb x y
  | _, _ => false
  end.

Definition bval_eqb (a b : bval) : bool :=
  match a, b with
  | VDesc x, VDesc y => desc_eqb x y
  | VRead x dx, VRead y dy => desc_eqb x y && beqb dx dy
  | VList lx ex, VList ly ey => list_eqb beqb lx ly && option_eqb gerr_eqb ex ey
  | VDescs lx ex, VDescs ly ey => list_eqb desc_eqb lx ly && option_eqb gerr_eqb ex ey
  | VWriter x, VWriter y => N.eqb x y
  | VN x, VN y => Z.eqb x y
  | VStr x, VStr y => beqb x y
  | VUnit, VUnit => true
  | _, _ => false
  end.

Definition bres_eqb (a b : bres) : bool :=
  match a, b with
  | Ok x, Ok y => bval_eqb x y
  | Err x, Err y => gerr_eqb x y
  | Panic, Panic => true
  | OutOfFuel, OutOfFuel => true
  | _, _ => false
  end.

Definition op_eqb (a b : op) : bool :=
  match a, b with
  | GetBlob r d, GetBlob r' d' => beqb r r' && beqb d d'
  | GetBlobRange r d x y, GetBlobRange r' d' x' y' => beqb r r' && beqb d d' && Z.eqb x x' && Z.eqb y y'
  | GetManifest r d, GetManifest r' d' => beqb r r' && beqb d d'
  | GetTag r t, GetTag r' t' => beqb r r' && beqb t t'
  | ResolveBlob r d, ResolveBlob r' d' => beqb r r' && beqb d d'
  | ResolveManifest r d, ResolveManifest r' d' => beqb r r' && beqb d d'
  | ResolveTag r t, ResolveTag r' t' => beqb r r' && beqb t t'
  | PushBlob r de c, PushBlob r' de' c' => beqb r r' && desc_eqb de de' && beqb c c'
  | PushBlobChunked r h, PushBlobChunked r' h' => beqb r r' && Z.eqb h h'
  | PushBlobChunkedResume r i x h, PushBlobChunkedResume r' i' x' h' =>
      beqb r r' && beqb i i' && Z.eqb x x' && Z.eqb h h'
  | MountBlob f t d, MountBlob f' t' d' => beqb f f' && beqb t t' && beqb d d'
  | PushManifest r t c m, PushManifest r' t' c' m' => beqb r r' && beqb t t' && beqb c c' && beqb m m'
  | DeleteBlob r d, DeleteBlob r' d' => beqb r r' && beqb d d'
  | DeleteManifest r d, DeleteManifest r' d' => beqb r r' && beqb d d'
  | DeleteTag r t, DeleteTag r' t' => beqb r r' && beqb t t'
  | Repositories x, Repositories x' => beqb x x'
  | Tags r x, Tags r' x' => beqb r r' && beqb x x'
  | Referrers r d a, Referrers r' d' a' => beqb r r' && beqb d d' && beqb a a'
  | WWrite w d, WWrite w' d' => N.eqb w w' && beqb d d'
  | WClose w, WClose w' => N.eqb w w'
  | WSize w, WSize w' => N.eqb w w'
  | WChunkSize w, WChunkSize w' => N.eqb w w'
  | WID w, WID w' => N.eqb w w'
  | WCommit w d, WCommit w' d' => N.eqb w w' && beqb d d'
  | WCancel w, WCancel w' => N.eqb w w'
  | _, _ => false
  end.

Definition ev_eqb (a b : ev) : bool :=
  match a, b with
  | ECall x rx, ECall y ry => op_eqb x y && bres_eqb rx ry
  | ECloseR, ECloseR => true
  | ELocs m d, ELocs m' d' => Bool.eqb m m' && desc_eqb d d'
  | _, _ => false
  end.

Definition trace_eqb (a b : list ev) : bool := list_eqb ev_eqb a b.

(* documents: an error document is compared by code and by whether it has a detail (the
   message is prose; the detail is re-encoded by encoding/json) *)
Definition jval_eqb (a b : jval) : bool :=
  match a, b with
  | JTags n t, JTags n' t' => beqb n n' && list_eqb beqb t t'
  | JCatalog r, JCatalog r' => list_eqb beqb r r'
  | JIndex m, JIndex m' => list_eqb desc_eqb m m'
  | JErr w, JErr w' => beqb (w_code w) (w_code w')
                       && Bool.eqb (match w_detail w with Some _ => true | None => false end)
                                   (match w_detail w' with Some _ => true | None => false end)
  | _, _ => false
  end.

(* header maps: the same keys with the same values *)
Definition hdrs_le (a b : headers) : bool :=
  forallb (fun kv => option_eqb beqb (hget (fst kv) a) (hget (fst kv) b)) a.
Definition headers_eqb (a b : headers) : bool := hdrs_le a b && hdrs_le b a.

(* ================================================================ the replaying backend *)

Definition script_step : backend (list bres) :=
  fun st _ => match st with
              | r :: st' => (st', r)
              | [] => ([], Err (Plain (s "script exhausted")))
              end.

Definition script_of (tr : list ev) : list bres :=
  flat_map (fun e => match e with ECall _ r => [r] | _ => [] end) tr.

(* ================================================================ which backends are in scope *)

(* the error can be written by ociregistry.WriteError: its text can be computed and the
   status MarshalError picks is one net/http accepts *)
Definition servable (e : gerr) : bool := is_ok (serve_error go_sprefix go_cprefix e).

(* BlobWriter.ID(): a non-empty valid UTF-8 string *)
Definition good_id (i : bytes) : bool := nonempty i && utf8_valid i.

Definition wb_res (c : op) (r : bres) : bool :=
  match c with
  | WID _ => match r with Ok v => good_id (str_of v) | _ => false end
  | _ =>
      match r with
      | Panic | OutOfFuel => false
      | Err e => servable e
      | Ok v => match iter_err_of v with Some e => servable e | None => true end
      end
  end.

Definition wb_ev (e : ev) : bool :=
  match e with
  | ECall c r => wb_res c r
  | _ => true
  end.
Definition wb_trace (tr : list ev) : bool := forallb wb_ev tr.

(* Options.LocationsForDescriptor on the arguments it was called with: no panic, and an
   error whose text can be computed *)
Definition wb_locs (f : option (bool -> desc -> R gerr (list bytes))) (tr : list ev) : bool :=
  match f with
  | None => true
  | Some f =>
      forallb (fun e => match e with
                        | ELocs m d => match f m d with
                                       | Ok _ => true
                                       | Err e => servable e
                                       | _ => false
                                       end
                        | _ => true
                        end) tr
  end.

(* ================================================================ the specification *)

Section Spec.
  Variable linked : alg -> bool.

  (* a decimal integer of any size: an optional sign and at least one digit *)
  Definition parse_dec (a : bytes) : option Z :=
    let '(neg, ds) := match a with
                      | 43 :: r => (false, r)
                      | 45 :: r => (true, r)
                      | _ => (false, a)
                      end in
    match ds with
    | [] => None
    | _ => match digits_val ds 0 with
           | None => None
           | Some v => Some (if neg then (- v)%Z else v)
           end
    end.

  Definition has (k : bytes) (h : headers) : bool := match hget k h with Some _ => true | None => false end.
  Definition hnum (k : bytes) (h : headers) : option Z :=
    match hget k h with Some v => parse_dec v | None => None end.

  (* ---- 1. a failure is one JSON error whose status agrees with its code ---- *)
  Definition status_ok (resp : hresp) : bool :=
    match p_json resp with
    | Some (JErr w) =>
        option_eqb beqb (hget H_ctype (p_hdrs resp)) (Some (s "application/json"))
        && negb (beqb (w_code w) [])
        && match lookup (w_code w) error_statuses with
           | Some st => (p_status resp =? st)%Z
           | None => true
           end
    | _ => ((200 <=? p_status resp) && (p_status resp <? 400))%Z
    end.

  (* ---- 2. mandated headers ---- *)

  (* the last event of the trace about which [f] says something *)
  Fixpoint last_of {A} (f : ev -> option A) (tr : list ev) (acc : option A) : option A :=
    match tr with
    | [] => acc
    | e :: t => last_of f t (match f e with Some x => Some x | None => acc end)
    end.

  (* the descriptor (and content, for a reader) the backend promised for this response, and the
     digest it was asked for when it was asked by digest: the last successful content-bearing
     call *)
  Definition content_of (e : ev) : option (desc * option bytes * option bytes) :=
    match e with
    | ECall (GetBlob _ dg) (Ok v) | ECall (GetBlobRange _ dg _ _) (Ok v)
    | ECall (GetManifest _ dg) (Ok v) => Some (desc_of v, Some (data_of v), Some dg)
    | ECall (GetTag _ _) (Ok v) => Some (desc_of v, Some (data_of v), None)
    | ECall (ResolveBlob _ dg) (Ok v) | ECall (ResolveManifest _ dg) (Ok v) => Some (desc_of v, None, Some dg)
    | ECall (ResolveTag _ _) (Ok v) => Some (desc_of v, None, None)
    | _ => None
    end.
  Definition last_content (tr : list ev) : option (desc * option bytes * option bytes) :=
    last_of content_of tr None.

  (* Docker-Content-Digest names the content: the digest of the descriptor the backend
     returned, or the digest the content was asked for by *)
  Definition dcd_value_ok (d : desc) (asked : option bytes) (v : bytes) : bool :=
    beqb v (d_digest d) || match asked with Some a => beqb v a | None => false end.

  (* -- uploads: what the backend said in this exchange about the upload -- *)
  Definition upload_open (e : ev) : bool :=
    match e with
    | ECall (PushBlobChunked _ _) (Ok _) | ECall (PushBlobChunkedResume _ _ _ _) (Ok _) => true
    | _ => false
    end.
  Definition upload_fresh (e : ev) : bool :=
    match e with ECall (PushBlobChunked _ _) (Ok _) => true | _ => false end.
  (* the repository the upload was opened in *)
  Definition upload_repo_of (e : ev) : option bytes :=
    match e with
    | ECall (PushBlobChunked r _) (Ok _) | ECall (PushBlobChunkedResume r _ _ _) (Ok _) => Some r
    | _ => None
    end.
  (* BlobWriter.ID() *)
  Definition upload_id_of (e : ev) : option bytes :=
    match e with ECall (WID _) (Ok v) => Some (str_of v) | _ => None end.
  (* BlobWriter.Size(); the method has no error result: [Some None] is an answer that is not a size *)
  Definition upload_size_of (e : ev) : option (option Z) :=
    match e with
    | ECall (WSize _) (Ok v) => Some (Some (n_of v))
    | ECall (WSize _) _ => Some None
    | _ => None
    end.

  (* where the upload continues: the upload-info URL of the repository it was opened in and
     of the ID its writer reported *)
  Definition upload_location (repo id : bytes) : bytes :=
    s "/v2/" ++ repo ++ s "/blobs/uploads/" ++ b64u_encode id.
  Definition upload_location_ok (tr : list ev) (v : option bytes) : bool :=
    match last_of upload_repo_of tr None, last_of upload_id_of tr None with
    | Some r, Some id => option_eqb beqb v (Some (upload_location r id))
    | _, _ => false
    end.

  (* how far it got: "0-N" where N is the offset of the last byte held (0 when nothing is
     held), for a size that is a non-negative int64 value; any other answer is outside the
     conventions and only the form is required *)
  Definition int64_max : Z := 9223372036854775807.
  Definition range_end_for (size : Z) : option Z :=
    if ((0 <=? size) && (size <=? int64_max))%Z then Some (Z.max 0 (size - 1)) else None.

  (* "0-N" with N >= 0, and N the expected one when one is expected *)
  Definition range_value_ok (expect : option Z) (v : option bytes) : bool :=
    match v with
    | Some a => match cut_byte 45 a with
                | Some (x, y) => match parse_dec x, parse_dec y with
                                 | Some 0%Z, Some n =>
                                     (0 <=? n)%Z && match expect with Some m => (n =? m)%Z | None => true end
                                 | _, _ => false
                                 end
                | None => false
                end
    | None => false
    end.

  (* the size is the one the writer reported last in this exchange; when it was not asked, the
     upload must be one opened afresh in this exchange, which holds nothing *)
  Definition upload_range_ok (tr : list ev) (v : option bytes) : bool :=
    match last_of upload_size_of tr None with
    | Some (Some size) => range_value_ok (range_end_for size) v
    | Some None => range_value_ok None v
    | None => existsb upload_fresh tr && range_value_ok (Some 0%Z) v
    end.

  (* -- created content -- *)
  Definition blob_location (repo dg : bytes) : bytes := s "/v2/" ++ repo ++ s "/blobs/" ++ dg.
  Definition manifest_location (repo dg : bytes) : bytes := s "/v2/" ++ repo ++ s "/manifests/" ++ dg.

  (* what was created: the descriptor the backend returned for it and the URLs that name it
     (a mounted blob also by the digest the mount asked for); [urepo] is the repository of the
     upload that Commit completes *)
  Definition created_of (urepo : option bytes) (e : ev) : option (desc * list bytes) :=
    match e with
    | ECall (PushBlob r _ _) (Ok v) => Some (desc_of v, [blob_location r (d_digest (desc_of v))])
    | ECall (MountBlob _ r dg) (Ok v) =>
        Some (desc_of v, [blob_location r dg; blob_location r (d_digest (desc_of v))])
    | ECall (PushManifest r _ _ _) (Ok v) => Some (desc_of v, [manifest_location r (d_digest (desc_of v))])
    | ECall (WCommit _ _) (Ok v) =>
        match urepo with
        | Some r => Some (desc_of v, [blob_location r (d_digest (desc_of v))])
        | None => None
        end
    | _ => None
    end.

  (* the place Options.LocationsForDescriptor named, when it is set, was asked and named one *)
  Definition locs_asked_of (e : ev) : option (bool * desc) :=
    match e with ELocs m d => Some (m, d) | _ => None end.
  Definition chosen_location (o : opts) (tr : list ev) : option bytes :=
    match o_locs o, last_of locs_asked_of tr None with
    | Some f, Some (m, d) => match f m d with Ok (l0 :: _) => Some l0 | _ => None end
    | _, _ => None
    end.

  (* 201: Docker-Content-Digest is the digest of what was created, Location is the place the
     option chose or else a URL that names what was created *)
  Definition created_ok (o : opts) (tr : list ev) (loc dcd : option bytes) : bool :=
    match last_of (created_of (last_of upload_repo_of tr None)) tr None with
    | Some (d, names) =>
        option_eqb beqb dcd (Some (d_digest d))
        && match loc with
           | Some l => match chosen_location o tr with
                       | Some l0 => beqb l l0
                       | None => mem_bytes l names
                       end
           | None => false
           end
    | None => false
    end.

  (* "bytes S-E/SIZE" *)
  Definition content_range_of (v : option bytes) : option (Z * Z * Z) :=
    match v with
    | Some a =>
        match cut_prefix (s "bytes ") a with
        | Some r =>
            match cut_byte 45 r with
            | Some (x, r') =>
                match cut_byte 47 r' with
                | Some (y, z) => match parse_dec x, parse_dec y, parse_dec z with
                                 | Some a, Some b, Some c => Some (a, b, c)
                                 | _, _, _ => None
                                 end
                | None => None
                end
            | None => None
            end
        | None => None
        end
    | None => None
    end.

  Definition implb' (a b : bool) : bool := negb a || b.

  Definition headers_ok (o : opts) (tr : list ev) (resp : hresp) : bool :=
    let h := p_hdrs resp in
    let st := p_status resp in
    match p_json resp with
    | Some (JErr _) => true
    | j =>
        (* created: where it is and what it is *)
        implb' (st =? 201)%Z (created_ok o tr (hget H_location h) (hget H_dcd h))
        (* upload accepted / upload status: where to continue and how far it got *)
        && implb' (((st =? 202)%Z && existsb upload_open tr) || (st =? 204)%Z)
                  (upload_location_ok tr (hget H_location h) && upload_range_ok tr (hget H_range h))
        (* redirect *)
        && implb' (st =? 307)%Z (has H_location h)
        (* content *)
        && match last_content tr with
           | Some (d, data, asked) =>
               let dcd_ok := match hget H_dcd h with
                             | Some v => dcd_value_ok d asked v
                             | None => o_omit_digest_from_tag_get o
                             end in
               if (st =? 200)%Z then
                 option_eqb Z.eqb (hnum H_clen h) (Some (d_size d))
                 && dcd_ok
                 && match data with
                    | Some data => implb' (blen data =? d_size d)%Z (blen (p_body resp) =? d_size d)%Z
                    | None => true
                    end
               else if (st =? 206)%Z then
                 match content_range_of (hget H_crange h) with
                 | Some (s0, e0, size) =>
                     ((size =? d_size d) && (0 <=? s0) && (s0 <=? e0 + 1) && (e0 + 1 <=? size))%Z
                     && option_eqb Z.eqb (hnum H_clen h) (Some (e0 + 1 - s0)%Z)
                     && match hget H_dcd h with Some v => dcd_value_ok d asked v | None => false end
                     && match data with
                        | Some data => implb' (blen data =? e0 + 1 - s0)%Z (blen (p_body resp) =? e0 + 1 - s0)%Z
                        | None => true
                        end
                 | None => false
                 end
               else true
           | None => true
           end
        (* a marshalled document: Content-Length is its length *)
        && match j with
           | Some _ => option_eqb Z.eqb (hnum H_clen h) (Some (blen (p_body resp)))
           | None => true
           end
    end.

  (* ---- 3. backend calls carry valid names ---- *)
  Definition op_args_ok (c : op) : bool :=
    match c with
    | GetBlob r d | GetBlobRange r d _ _ | GetManifest r d | ResolveBlob r d | ResolveManifest r d
    | DeleteBlob r d | DeleteManifest r d | Referrers r d _ => vrepo r && vdigest linked d
    | GetTag r t | ResolveTag r t | DeleteTag r t => vrepo r && vtag t
    | PushBlob r de _ => vrepo r && vdigest linked (d_digest de)
    | PushBlobChunked r _ | PushBlobChunkedResume r _ _ _ | Tags r _ => vrepo r
    | MountBlob f t d => vrepo f && vrepo t && vdigest linked d
    | PushManifest r t _ _ => vrepo r && (match t with [] => true | _ => vtag t end)
    | Repositories _ => true
    | WCommit _ d => vdigest linked d
    | WWrite _ _ | WClose _ | WSize _ | WChunkSize _ | WID _ | WCancel _ => true
    end.

  Definition args_ok (tr : list ev) : bool :=
    forallb (fun e => match e with ECall c _ => op_args_ok c | _ => true end) tr.

  (* ---- 4. everything obtained is closed ---- *)
  Definition reader_open (e : ev) : bool :=
    match e with
    | ECall (GetBlob _ _) (Ok _) | ECall (GetBlobRange _ _ _ _) (Ok _)
    | ECall (GetManifest _ _) (Ok _) | ECall (GetTag _ _) (Ok _) => true
    | _ => false
    end.

  (* every Close follows an open reader; none is left open *)
  Fixpoint readers_closed (tr : list ev) (open : nat) : bool :=
    match tr with
    | [] => Nat.eqb open 0
    | ECloseR :: t => match open with O => false | S n => readers_closed t n end
    | e :: t => readers_closed t (if reader_open e then S open else open)
    end.

  Definition writer_of (e : ev) : option wid :=
    match e with
    | ECall (PushBlobChunked _ _) (Ok v) | ECall (PushBlobChunkedResume _ _ _ _) (Ok v) => Some (wid_of v)
    | _ => None
    end.
  Definition closes (w : wid) (e : ev) : bool :=
    match e with ECall (WClose w') _ => N.eqb w w' | _ => false end.

  Fixpoint writers_closed (tr : list ev) : bool :=
    match tr with
    | [] => true
    | e :: t => (match writer_of e with Some w => existsb (closes w) t | None => true end) && writers_closed t
    end.

  Definition closed_ok (tr : list ev) : bool := readers_closed tr 0 && writers_closed tr.

  (* ---- 5. a backend failure is answered with a failure ----
     (the error of a deferred Close is dropped by design; Size, ChunkSize and ID have no
     error result) *)
  Definition call_failed (e : ev) : bool :=
    match e with
    | ECall (WClose _) _ | ECall (WSize _) _ | ECall (WChunkSize _) _ | ECall (WID _) _ => false
    | ECall _ (Err _) => true
    | _ => false
    end.
  Definition is_failure (resp : hresp) : bool :=
    match p_json resp with Some (JErr _) => true | _ => false end.
  Definition errors_answered (tr : list ev) (resp : hresp) : bool :=
    implb' (existsb call_failed tr) (is_failure resp).

  Definition spec_ok (o : opts) (req : hreq) (tr : list ev) (resp : hresp) : bool :=
    status_ok resp && headers_ok o tr resp && args_ok tr && closed_ok tr && errors_answered tr resp.

End Spec.
