(* Model of the error machinery of cue-labs/oci, followed line by line:
     ociregistry/error.go            errorStatuses, WireErrors, WireError, httpError, WriteError,
                                     MarshalError, trimErrorCodePrefix, append*Prefix, the 15 values
     ociregistry/ociclient/error.go  makeError, makeError1, isJSONMediaType
     ociregistry/ociserver/error.go  withHTTPCode, badAPIUseError
     ociregistry/ociserver/registry.go  ServeHTTP error exit, handlerErrorForRequestParseError
   plus the per-method wrapping that the upload handlers / client upload methods add to an error
   on its way to / from the wire (ociserver/writer.go, ociclient/writer.go), as [wrap]s.

   Go error values are a tree [gerr].  errors.Is / errors.As are the standard pre-order
   traversal with the custom Is methods.  http.StatusText and the code lower-casing live behind
   the two Section variables [sprefix] (appendHTTPStatusPrefix) and [cprefix]
   (appendErrorCodePrefix); [go_sprefix] / [go_cprefix] are what Go computes.
   encoding/json is an oracle: the wire is the record (status, code, message, detail) the
   server writes and the client reads, plus the body length and the carrier kind. *)
From Coq Require Import String.
From OCI Require Export Base.Outcome.

(* ---------------------------------------------------------------- values *)

(* ociregistry.WireError *)
Record werr := W { w_code : bytes; w_msg : bytes; w_detail : option bytes }.

Inductive gerr :=
  | Wire (w : werr)                      (* *WireError (NewError, the 15 standard values) *)
  | Wires (l : list werr)                (* *WireErrors: what the client builds from a body *)
  | Wrap (p : bytes) (e : gerr)          (* fmt.Errorf(p + "%w", e): Error() = p ++ e.Error() *)
  | Http (st : Z) (u : option gerr) (resp : bool)
                                         (* *httpError: status, underlying (may be nil),
                                            whether a response was attached *)
  | Plain (m : bytes).                   (* errors.New / fmt.Errorf without %w *)

(* the 15 standard values of error.go, in the order of the var block *)
Inductive std :=
  | SBlobUnknown | SBlobUploadInvalid | SBlobUploadUnknown | SDigestInvalid
  | SManifestBlobUnknown | SManifestInvalid | SManifestUnknown | SNameInvalid | SNameUnknown
  | SSizeInvalid | SUnauthorized | SDenied | SUnsupported | STooManyRequests | SRangeInvalid.

Definition all_std : list std :=
  [SBlobUnknown; SBlobUploadInvalid; SBlobUploadUnknown; SDigestInvalid;
   SManifestBlobUnknown; SManifestInvalid; SManifestUnknown; SNameInvalid; SNameUnknown;
   SSizeInvalid; SUnauthorized; SDenied; SUnsupported; STooManyRequests; SRangeInvalid].

Definition std_eqb (a b : std) : bool :=
  match a, b with
  | SBlobUnknown, SBlobUnknown | SBlobUploadInvalid, SBlobUploadInvalid
  | SBlobUploadUnknown, SBlobUploadUnknown | SDigestInvalid, SDigestInvalid
  | SManifestBlobUnknown, SManifestBlobUnknown | SManifestInvalid, SManifestInvalid
  | SManifestUnknown, SManifestUnknown | SNameInvalid, SNameInvalid | SNameUnknown, SNameUnknown
  | SSizeInvalid, SSizeInvalid | SUnauthorized, SUnauthorized | SDenied, SDenied
  | SUnsupported, SUnsupported | STooManyRequests, STooManyRequests
  | SRangeInvalid, SRangeInvalid => true
  | _, _ => false
  end.

Lemma std_eqb_eq a b : std_eqb a b = true <-> a = b.
Proof. destruct a, b; cbn; split; congruence. Qed.

Definition std_code (t : std) : bytes :=
  match t with
  | SBlobUnknown => s "BLOB_UNKNOWN"
  | SBlobUploadInvalid => s "BLOB_UPLOAD_INVALID"
  | SBlobUploadUnknown => s "BLOB_UPLOAD_UNKNOWN"
  | SDigestInvalid => s "DIGEST_INVALID"
  | SManifestBlobUnknown => s "MANIFEST_BLOB_UNKNOWN"
  | SManifestInvalid => s "MANIFEST_INVALID"
  | SManifestUnknown => s "MANIFEST_UNKNOWN"
  | SNameInvalid => s "NAME_INVALID"
  | SNameUnknown => s "NAME_UNKNOWN"
  | SSizeInvalid => s "SIZE_INVALID"
  | SUnauthorized => s "UNAUTHORIZED"
  | SDenied => s "DENIED"
  | SUnsupported => s "UNSUPPORTED"
  | STooManyRequests => s "TOOMANYREQUESTS"
  | SRangeInvalid => s "RANGE_INVALID"
  end.

Definition std_msg (t : std) : bytes :=
  match t with
  | SBlobUnknown => s "blob unknown to registry"
  | SBlobUploadInvalid => s "blob upload invalid"
  | SBlobUploadUnknown => s "blob upload unknown to registry"
  | SDigestInvalid => s "provided digest did not match uploaded content"
  | SManifestBlobUnknown => s "manifest references a manifest or blob unknown to registry"
  | SManifestInvalid => s "manifest invalid"
  | SManifestUnknown => s "manifest unknown to registry"
  | SNameInvalid => s "invalid repository name"
  | SNameUnknown => s "repository name not known to registry"
  | SSizeInvalid => s "provided length did not match content length"
  | SUnauthorized => s "authentication required"
  | SDenied => s "requested access to the resource is denied"
  | SUnsupported => s "the operation is unsupported"
  | STooManyRequests => s "too many requests"
  | SRangeInvalid => s "invalid content range"
  end.

(* ErrXxx = NewError(msg, code, nil) *)
Definition std_werr (t : std) : werr := W (std_code t) (std_msg t) None.
Definition std_err (t : std) : gerr := Wire (std_werr t).

(* errorStatuses, row by row as in the map literal *)
Definition error_statuses : list (bytes * Z) :=
  [ (std_code SBlobUnknown, 404%Z);
    (std_code SBlobUploadInvalid, 416%Z);
    (std_code SBlobUploadUnknown, 404%Z);
    (std_code SDigestInvalid, 400%Z);
    (std_code SManifestBlobUnknown, 404%Z);
    (std_code SManifestInvalid, 400%Z);
    (std_code SManifestUnknown, 404%Z);
    (std_code SNameInvalid, 400%Z);
    (std_code SNameUnknown, 404%Z);
    (std_code SSizeInvalid, 400%Z);
    (std_code SUnauthorized, 401%Z);
    (std_code SDenied, 403%Z);
    (std_code SUnsupported, 400%Z);
    (std_code STooManyRequests, 429%Z);
    (std_code SRangeInvalid, 416%Z) ].

Fixpoint lookup (k : bytes) (tbl : list (bytes * Z)) : option Z :=
  match tbl with
  | [] => None
  | (k', v) :: r => if beqb k k' then Some v else lookup k r
  end.

(* ---------------------------------------------------------------- errors.As / errors.Is *)

(* errors.As(err, &ociErr) with ociErr of interface type Error (Code, Detail): only
   *WireError implements it; *WireErrors.Unwrap() []error yields its elements in order. *)
Fixpoint as_err (e : gerr) : option werr :=
  match e with
  | Wire w => Some w
  | Wires l => hd_error l
  | Wrap _ e' => as_err e'
  | Http _ (Some e') _ => as_err e'
  | Http _ None _ => None
  | Plain _ => None
  end.

(* errors.As(err, &httpErr) with httpErr of interface type HTTPError: only *httpError *)
Fixpoint as_http (e : gerr) : option Z :=
  match e with
  | Wire _ | Wires _ | Plain _ => None
  | Wrap _ e' => as_http e'
  | Http st _ _ => Some st
  end.

(* WireError.Is(target): errors.As(target, &rerr) && rerr.Code() == e.Code();
   the target is one of the 15 values, so rerr is the target itself. *)
Definition werr_is (w : werr) (t : std) : bool := beqb (std_code t) (w_code w).

(* httpError.Is(target): switch statusCode { case 416: return target == ErrRangeInvalid } *)
Definition http_is (st : Z) (t : std) : bool :=
  if Z.eqb st 416 then std_eqb t SRangeInvalid else false.

(* errors.Is(err, target): at each node [err == target || err.Is(target)], then Unwrap.
   Pointer equality with a standard value implies equal codes, so it is subsumed by werr_is. *)
Fixpoint is (e : gerr) (t : std) : bool :=
  match e with
  | Wire w => werr_is w t
  | Wires l => existsb (fun w => werr_is w t) l
  | Wrap _ e' => is e' t
  | Http st u _ => http_is st t || match u with Some e' => is e' t | None => false end
  | Plain _ => false
  end.

(* WireErrors.Error indexes e.Errors[0]: an empty list panics.  Every Error() call in the
   tree is reached by the root's Error(), so the root's Error() panics iff some list is empty. *)
Fixpoint text_panics (e : gerr) : bool :=
  match e with
  | Wire _ | Plain _ => false
  | Wires l => match l with [] => true | _ => false end
  | Wrap _ e' => text_panics e'
  | Http _ (Some e') _ => text_panics e'
  | Http _ None _ => false
  end.

Definition colon_sp : bytes := [58; 32].     (* ": " *)
Definition semi_sp : bytes := [59; 32].      (* "; " *)

(* ---------------------------------------------------------------- records used below *)

(* what MarshalError puts on the wire *)
Record wire := { r_status : Z; r_err : werr }.

Inductive parse_kind := PNotFound | PBadlyFormedDigest | PMethodNotAllowed | PBadRequest | POther.


(* what the client has in hand when it calls makeError *)
Record response := {
  rp_head : bool;                  (* resp.Request.Method == "HEAD" *)
  rp_status : Z;
  rp_media : bytes;                (* parsed media type of Content-Type *)
  rp_len : Z;                      (* body bytes available (net/http strips HEAD bodies) *)
  rp_body : option (list werr);    (* json.Unmarshal into WireErrors; None = malformed *)
  rp_txt : bytes                   (* text of the fmt.Errorf in the failing branches: oracle *)
}.

(* what a handler / a client method does to the error besides passing it on *)
Inductive wrap :=
  | WNone
  | WW (p : bytes)       (* fmt.Errorf(p + "%w", err) *)
  | WV (p : bytes).      (* fmt.Errorf(p + "%v", err): identity flattened to text *)

Record hopspec := {
  h_head : bool;        (* the request is a HEAD *)
  h_swrap : wrap;       (* handler wrapping before the error exit *)
  h_cwrap : wrap;       (* client method wrapping of makeError's result *)
  h_len : Z             (* length of the JSON body json.Marshal produced: oracle *)
}.


Section Prefixes.
  (* appendHTTPStatusPrefix(nil, status) and appendErrorCodePrefix(nil, code) *)
  Variable sprefix : Z -> bytes.
  Variable cprefix : bytes -> bytes.

  (* WireError.Error *)
  Definition wtext (w : werr) : bytes :=
    cprefix (w_code w) ++ match w_msg w with [] => [] | m => colon_sp ++ m end.

  (* WireErrors.Error: first, then "; " + each of the rest *)
  Fixpoint wtexts_rest (r : list werr) : bytes :=
    match r with
    | [] => []
    | w :: r' => semi_sp ++ wtext w ++ wtexts_rest r'
    end.

  Definition wtexts (l : list werr) : bytes :=
    match l with
    | [] => []
    | w :: r => wtext w ++ wtexts_rest r
    end.

  (* Error() *)
  Fixpoint text (e : gerr) : bytes :=
    match e with
    | Wire w => wtext w
    | Wires l => wtexts l
    | Wrap p e' => p ++ text e'
    | Http st u _ => sprefix st ++ match u with Some e' => colon_sp ++ text e' | None => [] end
    | Plain m => m
    end.

  (* trimErrorCodePrefix(err, httpStatus, errorCode): the status prefix is trimmed, then a
     message that is exactly the code text (WireError.Error of an empty message) becomes
     empty, else the code prefix is trimmed *)
  Definition trim_error_code_prefix (e : gerr) (status : Z) (code : bytes) : bytes :=
    let msg := text e in
    let msg := if Z.eqb status 0 then msg else trim_prefix (sprefix status ++ colon_sp) msg in
    match code with
    | [] => msg
    | _ => if beqb msg (cprefix code) then [] else trim_prefix (cprefix code ++ colon_sp) msg
    end.

  Definition unknown_code : bytes := s "UNKNOWN".

  Definition marshal_code (e : gerr) : bytes :=
    match as_err e with
    | Some w => match w_code w with [] => unknown_code | c => c end
    | None => unknown_code
    end.

  (* Detail_ is a RawMessage with omitempty: nil and the empty slice are both omitted *)
  Definition marshal_detail (e : gerr) : option bytes :=
    match as_err e with
    | Some w => match w_detail w with Some [] => None | d => d end
    | None => None
    end.

  Definition marshal_status (e : gerr) : Z :=
    match lookup (marshal_code e) error_statuses with
    | Some st => st
    | None => match as_http e with Some st => st | None => 500%Z end
    end.

  (* MarshalError (total part; the two panics are in [serve_error]) *)
  Definition marshal_error (e : gerr) : wire :=
    let code := marshal_code e in
    let status := marshal_status e in
    {| r_status := status;
       r_err := W code (trim_error_code_prefix e status code) (marshal_detail e) |}.

  (* ServeHTTP error exit = opts.WriteError = ociregistry.WriteError: MarshalError, then
     w.WriteHeader(status), which panics outside 100..999 (net/http checkWriteHeaderCode).
     err.Error() panics on an empty WireErrors.  The detail is assumed to be valid JSON
     (json.Marshal of an invalid RawMessage would be a third panic: oracle). *)
  Definition serve_error (e : gerr) : R unit wire :=
    if text_panics e then Panic
    else let r := marshal_error e in
         if (Z.ltb (r_status r) 100 || Z.ltb 999 (r_status r))%bool then Panic else Ok r.

  (* ------------------------------------------------------------ server-side constructors *)

  (* ociserver/error.go *)
  Definition with_http_code (st : Z) (e : gerr) : gerr := Http st (Some e) false.
  Definition bad_api_use_error (m : bytes) : gerr := Wire (W (std_code SUnsupported) m None).

  (* handlerErrorForRequestParseError: err is a *ParseError whose Err is compared with ==
     against the four sentinels; anything else (e.g. a wrapped ErrBadRequest) is returned as is.
     ParseError / errors.New carry no code and no status: Plain. *)
  Definition handler_error_for_parse_error (k : parse_kind) (m : bytes) : gerr :=
    match k with
    | PNotFound => with_http_code 404 (Plain m)
    | PBadlyFormedDigest => with_http_code 400 (Plain m)
    | PMethodNotAllowed => with_http_code 405 (Plain m)
    | PBadRequest => with_http_code 400 (Plain m)
    | POther => Plain m
    end.

  (* ------------------------------------------------------------ client side *)

  (* isJSONMediaType on the media type mime.ParseMediaType returned (oracle for the parse):
     strip "application/", then look at the "+"-separated parts: a part "json" before a "+"
     accepts at once, the last part must be exactly "json". *)
  Definition json_word : bytes := s "json".
  Definition application_slash : bytes := s "application/".

  Fixpoint json_parts (m : bytes) (cur : bytes) : bool :=
    match m with
    | [] => beqb (rev cur) json_word
    | c :: m' => if N.eqb c 43 then (beqb (rev cur) json_word || json_parts m' [])
                 else json_parts m' (c :: cur)
    end.

  Definition is_json_media_type (media : bytes) : bool :=
    if has_prefix application_slash media
    then json_parts (skipn (length application_slash) media) []
    else false.

  Definition error_body_size_limit : Z := 8192.

  (* makeError1 *)
  Definition make_error1 (r : response) : option gerr :=
    if rp_head r then
      if Z.eqb (rp_status r) 404 then Some (std_err SNameUnknown)
      else if Z.eqb (rp_status r) 401 then Some (std_err SUnauthorized)
      else if Z.eqb (rp_status r) 403 then Some (std_err SDenied)
      else if Z.eqb (rp_status r) 429 then Some (std_err STooManyRequests)
      else if Z.eqb (rp_status r) 400 then Some (std_err SUnsupported)
      else None
    else if negb (is_json_media_type (rp_media r)) then Some (Plain (rp_txt r))
    else match rp_body r with
         | None => Some (Plain (rp_txt r))
         | Some [] => Some (Plain (rp_txt r))
         | Some l => Some (Wires l)
         end.

  Definition too_large_text : bytes := s "error body too large".

  (* makeError (resp.Body is never nil on a client response; a read error is not modelled) *)
  Definition make_error (r : response) : gerr :=
    let inner := if Z.ltb error_body_size_limit (rp_len r) then Some (Plain too_large_text)
                 else make_error1 r in
    Http (rp_status r) inner true.

  (* ------------------------------------------------------------ one hop *)

  Definition apply_wrap (w : wrap) (e : gerr) : gerr :=
    match w with
    | WNone => e
    | WW p => Wrap p e
    | WV p => Plain (p ++ text e)
    end.

  Definition json_media : bytes := s "application/json".

  (* the response the client sees for what WriteError wrote *)
  Definition response_of (hs : hopspec) (r : wire) : response :=
    {| rp_head := h_head hs; rp_status := r_status r; rp_media := json_media;
       rp_len := if h_head hs then 0%Z else h_len hs;
       rp_body := Some [r_err r]; rp_txt := [] |}.

  (* total version, meaningful when serve_error does not panic *)
  Definition hop (hs : hopspec) (e : gerr) : gerr :=
    apply_wrap (h_cwrap hs)
      (make_error (response_of hs (marshal_error (apply_wrap (h_swrap hs) e)))).

  Definition hop_r (hs : hopspec) (e : gerr) : R unit gerr :=
    match serve_error (apply_wrap (h_swrap hs) e) with
    | Ok r => Ok (apply_wrap (h_cwrap hs) (make_error (response_of hs r)))
    | Err u => Err u
    | Panic => Panic
    | OutOfFuel => OutOfFuel
    end.

  (* level 1 (next to the backend) first *)
  Fixpoint hops (l : list hopspec) (e : gerr) : gerr :=
    match l with
    | [] => e
    | hs :: l' => hops l' (hop hs e)
    end.

  Fixpoint hops_r (l : list hopspec) (e : gerr) : R unit gerr :=
    match l with
    | [] => Ok e
    | hs :: l' => match hop_r hs e with
                  | Ok e' => hops_r l' e'
                  | Err u => Err u
                  | Panic => Panic
                  | OutOfFuel => OutOfFuel
                  end
    end.

  (* observables of an error value *)
  Definition wmsg (e : gerr) : bytes := w_msg (r_err (marshal_error e)).
  Definition cmsg (e : gerr) : option bytes :=
    match as_err e with Some w => Some (w_msg w) | None => None end.

End Prefixes.

(* ---------------------------------------------------------------- what Go computes *)

(* strconv.AppendInt(buf, n, 10) *)
Fixpoint dec_fuel (f : nat) (n : N) (acc : bytes) : bytes :=
  match f with
  | O => acc
  | S f' => let acc' := (48 + n mod 10) :: acc in
            if n <? 10 then acc' else dec_fuel f' (n / 10) acc'
  end.
Definition dec_N (n : N) : bytes := dec_fuel (S (N.size_nat n)) n [].
Definition dec_Z (z : Z) : bytes :=
  match z with
  | Z0 => [48]
  | Zpos p => dec_N (Npos p)
  | Zneg p => 45 :: dec_N (Npos p)
  end.

(* http.StatusText (go1.23) *)
Definition status_text (st : Z) : bytes :=
  match st with
  | 100 => s "Continue" | 101 => s "Switching Protocols" | 102 => s "Processing"
  | 103 => s "Early Hints"
  | 200 => s "OK" | 201 => s "Created" | 202 => s "Accepted"
  | 203 => s "Non-Authoritative Information" | 204 => s "No Content" | 205 => s "Reset Content"
  | 206 => s "Partial Content" | 207 => s "Multi-Status" | 208 => s "Already Reported"
  | 226 => s "IM Used"
  | 300 => s "Multiple Choices" | 301 => s "Moved Permanently" | 302 => s "Found"
  | 303 => s "See Other" | 304 => s "Not Modified" | 305 => s "Use Proxy"
  | 307 => s "Temporary Redirect" | 308 => s "Permanent Redirect"
  | 400 => s "Bad Request" | 401 => s "Unauthorized" | 402 => s "Payment Required"
  | 403 => s "Forbidden" | 404 => s "Not Found" | 405 => s "Method Not Allowed"
  | 406 => s "Not Acceptable" | 407 => s "Proxy Authentication Required"
  | 408 => s "Request Timeout" | 409 => s "Conflict" | 410 => s "Gone"
  | 411 => s "Length Required" | 412 => s "Precondition Failed"
  | 413 => s "Request Entity Too Large" | 414 => s "Request URI Too Long"
  | 415 => s "Unsupported Media Type" | 416 => s "Requested Range Not Satisfiable"
  | 417 => s "Expectation Failed" | 418 => s "I'm a teapot" | 421 => s "Misdirected Request"
  | 422 => s "Unprocessable Entity" | 423 => s "Locked" | 424 => s "Failed Dependency"
  | 425 => s "Too Early" | 426 => s "Upgrade Required" | 428 => s "Precondition Required"
  | 429 => s "Too Many Requests" | 431 => s "Request Header Fields Too Large"
  | 451 => s "Unavailable For Legal Reasons"
  | 500 => s "Internal Server Error" | 501 => s "Not Implemented" | 502 => s "Bad Gateway"
  | 503 => s "Service Unavailable" | 504 => s "Gateway Timeout"
  | 505 => s "HTTP Version Not Supported" | 506 => s "Variant Also Negotiates"
  | 507 => s "Insufficient Storage" | 508 => s "Loop Detected" | 510 => s "Not Extended"
  | 511 => s "Network Authentication Required"
  | _ => []
  end%Z.

(* appendHTTPStatusPrefix: decimal, a space, the status text *)
Definition go_sprefix (st : Z) : bytes := dec_Z st ++ 32 :: status_text st.

(* appendErrorCodePrefix: "(no code)" for the empty code, else per rune: '_' becomes ' ',
   otherwise unicode.ToLower.  Exact on ASCII and on runes without a lower-case mapping
   (bytes >= 128 are copied); the harness keeps codes inside that set. *)
Definition lower_byte (b : N) : N :=
  if N.eqb b 95 then 32 else if (65 <=? b) && (b <=? 90) then b + 32 else b.
Definition go_cprefix (code : bytes) : bytes :=
  match code with
  | [] => s "(no code)"
  | _ => map lower_byte code
  end.
