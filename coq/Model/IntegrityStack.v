(* The registry stacks of C01 above ocimem, as far as the property can see them.

   A history is always run on the model of ocimem (Model/Mem.v behind [xstep]); a stack
   decides how the result of an operation is seen from the top:

     k HTTP hops (ociclient -> ociserver -> ...): the four reads go, once per hop, through
       the client's request / the server's handler / the client's descriptor and reader
       (Model/BlobReader.v): Range header written and parsed, Content-Range and
       Content-Length re-described and parsed, the body read through blobReader; MountBlob's
       descriptor is rebuilt from the response (no size on the wire);
     wrappers (ocidebug, ocifilter.Select with an allow-all policy, ocifilter.Sub,
       ociunify over two equal members): transparent — that is C12 / C13 / C15's claim, the
       correspondence check of C01 re-observes it on every run.

   Pushes over HTTP are compared with the direct push of the same content (the upload
   protocol itself is C04's model). *)
From Coq Require Import String.
From OCI Require Export Model.IntegritySpec Model.BlobReader.

Local Open Scope Z_scope.

Record rb := {
  rb_blob : bytes -> bytes -> R err (desc * bytes);               (* repository, digest *)
  rb_range : bytes -> bytes -> Z -> Z -> R err (desc * bytes);
  rb_man : bytes -> bytes -> R err (desc * bytes);
  rb_tag : bytes -> bytes -> R err (desc * bytes)                 (* repository, tag *)
}.

Definition rd (r : result) : R err (desc * bytes) :=
  match r with
  | Ok (RRead de data) => Ok (de, data)
  | Ok _ => Panic
  | Err e => Err e
  | Panic => Panic
  | OutOfFuel => OutOfFuel
  end.

Definition back (x : R err (desc * bytes)) : result :=
  match x with
  | Ok (de, data) => Ok (RRead de data)
  | Err e => Err e
  | Panic => Panic
  | OutOfFuel => OutOfFuel
  end.

Section Stack.
  Variable valid_digest_ref : bytes -> bool.     (* ociref.IsValidDigest, used by the client *)
  Variable hashd : bytes -> bytes -> bytes.
  Variable valid_digest : bytes -> bool.
  Variable valid_repo : bytes -> bool.
  Variable valid_tag : bytes -> bool.
  Variable decode_image : bytes -> option image_manifest.
  Variable decode_index : bytes -> option index_manifest.
  Variable cfg : config.

  Local Notation hash := (canon_hash hashd).
  Local Notation step := (step hash valid_digest valid_repo valid_tag decode_image decode_index cfg).

  Definition mem_rb (st : state) : rb :=
    {| rb_blob := fun r d => rd (snd (step st (GetBlob r d)));
       rb_range := fun r d o0 o1 => rd (snd (step st (GetBlobRange r d o0 o1)));
       rb_man := fun r d => rd (snd (step st (GetManifest r d)));
       rb_tag := fun r t => rd (snd (step st (GetTag r t))) |}.

  Definition http_layer (b : rb) : rb :=
    {| rb_blob := fun r d => http_get_blob valid_digest_ref hashd d (rb_blob b r d);
       rb_range := fun r d o0 o1 =>
                     http_get_blob_range valid_digest_ref hashd d o0 o1 (rb_blob b r d) (rb_range b r d);
       rb_man := fun r d => http_get_manifest valid_digest_ref hashd d (rb_man b r d);
       rb_tag := fun r t => http_get_manifest valid_digest_ref hashd [] (rb_tag b r t) |}.

  Fixpoint hops (k : nat) (b : rb) : rb :=
    match k with
    | O => b
    | S k' => http_layer (hops k' b)
    end.

  (* ociserver.handleBlobMount + ociclient.MountBlob: 201 with Docker-Content-Digest (the
     backend descriptor's digest), descriptorFromResponse(resp, dig, requireDigest) *)
  Definition mount_layer (d : bytes) (r : result) : result :=
    match r with
    | Ok (RDesc de) =>
        match descriptor_from_response valid_digest_ref
                {| rs_status := 201; rs_ctype := []; rs_clen := 0; rs_crange := []; rs_digest := d_digest de |}
                d false true with
        | Some de' => Ok (RDesc de')
        | None => Err (e_client (s "invalid descriptor in response"))
        end
    | other => other
    end.

  Fixpoint mount_hops (k : nat) (d : bytes) (r : result) : result :=
    match k with
    | O => r
    | S k' => mount_layer d (mount_hops k' d r)
    end.

  (* what the top of a stack of k hops answers where ocimem, in state st, answered r *)
  Definition view (k : nat) (st : state) (x : xop) (r : result) : result :=
    match k with
    | O => r
    | _ =>
        match x with
        | XO (GetBlob rp d) => back (rb_blob (hops k (mem_rb st)) rp d)
        | XO (GetBlobRange rp d o0 o1) => back (rb_range (hops k (mem_rb st)) rp d o0 o1)
        | XO (GetManifest rp d) => back (rb_man (hops k (mem_rb st)) rp d)
        | XO (GetTag rp t) => back (rb_tag (hops k (mem_rb st)) rp t)
        | XO (MountBlob _ _ d) => mount_hops k d r
        | _ => r
        end
    end.

  Variable subject_json_ok : bytes -> bytes -> bool.
  Local Notation xstep := (xstep hash valid_digest valid_repo valid_tag decode_image decode_index cfg subject_json_ok).

  (* one operation on a stack of k hops.  The client refuses to send a mount whose digest is
     not well formed (ocirequest.Construct re-parses the URL it built), so ocimem never sees
     it; every other operation reaches ocimem and its answer is seen through [view]. *)
  Definition vstep (k : nat) (st : state) (x : xop) : state * result :=
    match k, x with
    | S _, XO (MountBlob _ _ d) =>
        if negb (is_nil d) && valid_digest_ref d
        then let '(st1, r) := xstep st x in (st1, view k st x r)
        else (st, Err (e_client (s "invalid OCI request")))
    | _, _ => let '(st1, r) := xstep st x in (st1, view k st x r)
    end.

  (* the results of a history as seen through k hops *)
  Fixpoint vresults (k : nat) (st : state) (h : list xop) : list result :=
    match h with
    | [] => []
    | x :: h' => let '(st1, r) := vstep k st x in r :: vresults k st1 h'
    end.

  Definition vlog (k : nat) (h : list xop) : list entry := combine h (map proj (vresults k init h)).
End Stack.
