(* Model of the listing machinery (property C05), following the Go code:

     ocimem/lister.go      mapKeysIter, Repositories, Tags, Referrers
     ociserver/lister.go   nextListResults, makeNextLink, handleTagsList/handleCatalogList,
                           handleReferrersList
     internal/ocirequest   listParams (create.go), setListQueryParams (request.go)
     ociclient/lister.go   pager, nextLink, Referrers
     ocifilter/select.go   accessCheckerRegistry.Repositories/Tags/Referrers, Select's check
                           and listAll (after the repair of the "*" confusion)
     ocifilter/sub.go      subRegistry.Repositories/Tags/Referrers (after the repair that
                           prefixes the start point)
     ociunify/lister.go    mergeIter
     ocidebug/debug.go     logIterReturn
     func.go               Funcs.Repositories/Tags/Referrers: the set field's iterator, or
                           ErrorSeq of the unsupported error

   Iterators are values of [Seq err T] (Base/Seq.v).  Items are byte strings: repository
   names, tags, and - for referrers - the digest of the descriptor (the listing order and
   the de-duplication of referrers only look at the digest).

   What is abstracted: the text of a list URL is reduced to its query part, the pair
   (n, last) as url.Values holds it ([wquery]); url.Values.Encode / ParseQuery /
   URL.Parse / strconv and the Link header syntax are Go's standard library and are
   exercised by the harness with URL metacharacters.  How an error value changes when
   it crosses HTTP is a parameter ([wire], property C07 owns it). *)
From Coq Require Import String.
From OCI Require Export Base.Outcome Base.Seq Base.SeqSort Model.Iface.

Definition ErrNameUnknown : err := E NAME_UNKNOWN [].
Definition ErrDenied : err := E DENIED [].

(* errors.Is(err, ociregistry.ErrNameUnknown); false for the nil error *)
Definition is_not_found (oe : option err) : bool :=
  match oe with
  | Some e => ecode_eqb (e_code e) NAME_UNKNOWN
  | None => false
  end.

(* ------------------------------------------------------------------ ocimem/lister.go *)

(* mapKeysIter(m, strings.Compare, startAfter): the keys of a Go map come in arbitrary
   order, so the map is a list of keys in some order; keep those with
   cmp(startAfter, k) < 0, sort, SliceSeq. *)
Definition mapKeysIter (keys : list bytes) (startAfter : bytes) : Seq err bytes :=
  let ks := filter (bltb startAfter) keys in
  SliceSeq (sort_bytes ks).

(* one repository of the in-memory registry, as far as listings look at it:
   its tags (keys of repo.tags) and its manifests as (digest, subject) (repo.manifests,
   keyed by digest) *)
Record mrepo := { mr_tags : list bytes; mr_manifests : list (bytes * bytes) }.
(* r.repos: repository name -> repository *)
Definition memreg := list (bytes * mrepo).

Fixpoint mem_repo (m : memreg) (name : bytes) : option mrepo :=
  match m with
  | [] => None
  | (k, r) :: m' => if beqb k name then Some r else mem_repo m' name
  end.

Definition mem_Repositories (m : memreg) (startAfter : bytes) : Seq err bytes :=
  mapKeysIter (map fst m) startAfter.

Definition mem_Tags (m : memreg) (repoName startAfter : bytes) : Seq err bytes :=
  match mem_repo m repoName with
  | None => ErrorSeq ErrNameUnknown
  | Some repo => mapKeysIter (mr_tags repo) startAfter
  end.

(* for _, b := range repo.manifests { if b.subject != digest { continue }; append };
   slices.SortFunc(referrers, compareDescriptor); SliceSeq *)
Definition mem_Referrers (m : memreg) (repoName digest : bytes) : Seq err bytes :=
  match mem_repo m repoName with
  | None => ErrorSeq ErrNameUnknown
  | Some repo =>
      let referrers := map fst (filter (fun b => beqb (snd b) digest) (mr_manifests repo)) in
      SliceSeq (sort_bytes referrers)
  end.

(* ------------------------------------------------------------------ the wire *)

(* the query part of a list URL: url.Values restricted to the keys "n" and "last" *)
Record wquery := { wq_n : option Z; wq_last : option bytes }.

(* ocirequest (create.go) listParams: n is set when ListN >= 0, last when non-empty *)
Definition listParams (listN : Z) (listLast : bytes) : wquery :=
  {| wq_n := if (listN >=? 0)%Z then Some listN else None;
     wq_last := match listLast with [] => None | _ => Some listLast end |}.

(* ocirequest (request.go) setListQueryParams: ListN = -1 unless n is present;
   ListLast = urlq.Get("last") *)
Definition setListQueryParams (q : wquery) : Z * bytes :=
  (match wq_n q with Some n => n | None => -1 end,
   match wq_last q with Some l => l | None => [] end)%Z.

(* what a list endpoint answers *)
Inductive lresp :=
  | LR_ok (items : list bytes) (link : option wquery)   (* 200, the page, the Link header's URL query *)
  | LR_err (e : err)                                     (* the handler returned an error *)
  | LR_panic.                                            (* the handler panicked *)

(* ------------------------------------------------------------------ ociserver/lister.go *)

Record sopts := { so_max : Z;            (* Options.MaxListPageSize *)
                  so_omit_link : bool }. (* Options.OmitLinkHeaderFromResponses *)

Definition err_n_too_large : err := E UNSUPPORTED (s "query parameter n is too large").

(* makeNextLink: query := req.URL.Query(); query.Set("last", startAfter) *)
Definition makeNextLink (req : wquery) (startAfter : bytes) : wquery :=
  {| wq_n := wq_n req; wq_last := Some startAfter |}.

(* the variables the callback of nextListResults closes over *)
Record nlr := { nl_items : list bytes; nl_trunc : bool; nl_err : option err }.

Definition nlr_cb (listN : Z) : consumer err bytes nlr :=
  fun v st =>
    match v with
    | inr e => ({| nl_items := nl_items st; nl_trunc := nl_trunc st; nl_err := Some e |}, false)
    | inl item =>
        if (listN >? 0)%Z && (Z.of_nat (length (nl_items st)) >=? listN)%Z
        then ({| nl_items := nl_items st; nl_trunc := true; nl_err := nl_err st |}, false)
        else ({| nl_items := nl_items st ++ [item]; nl_trunc := nl_trunc st; nl_err := nl_err st |}, true)
    end.

Fixpoint last_opt {A} (l : list A) : option A :=
  match l with
  | [] => None
  | [a] => Some a
  | _ :: l' => last_opt l'
  end.

Definition nextListResults (o : sopts) (req : wquery) (listN : Z) (itemsIter : Seq err bytes) : lresp :=
  if (so_max o >? 0)%Z && (listN >? so_max o)%Z then LR_err err_n_too_large
  else
    (* n := rreq.ListN; if n <= 0 { n = maxPageSize }  -- n is not used afterwards *)
    let st := itemsIter _ (nlr_cb listN) {| nl_items := []; nl_trunc := false; nl_err := None |} in
    match nl_err st with
    | Some e => LR_err e
    | None =>
        if nl_trunc st && negb (so_omit_link o) then
          match last_opt (nl_items st) with
          | None => LR_panic                                   (* items[len(items)-1] *)
          | Some l => LR_ok (nl_items st) (Some (makeNextLink req l))
          end
        else LR_ok (nl_items st) None
    end.

(* handleCatalogList / handleTagsList: the backend is asked to list from rreq.ListLast *)
Definition handleList (o : sopts) (backend : bytes -> Seq err bytes) (req : wquery) : lresp :=
  let (listN, listLast) := setListQueryParams req in
  nextListResults o req listN (backend listLast).

(* handleReferrersList: drain the iterator, an error aborts (the callback is All's) *)
Definition handleReferrers (it : Seq err bytes) : lresp :=
  match All it with
  | (_, Some e) => LR_err e
  | (items, None) => LR_ok items None
  end.

(* ------------------------------------------------------------------ ociclient/lister.go *)

Inductive pstatus := PDone | PPanic | POutOfFuel.

Definition transport_error : err := E ENone (s "transport").

Section Client.
  Variable wire : err -> err.      (* an error after it crossed HTTP *)

  (* nextLink: no Link header => the initial request with ListLast = last; else the URL
     of the Link *)
  Definition nextLink (link : option wquery) (initialN : Z) (last : bytes) : wquery :=
    match link with
    | None => listParams initialN last
    | Some q => q
    end.

  (* the for loop of pager; fuel bounds the number of requests *)
  Fixpoint pager_loop (fuel : nat) (srv : wquery -> lresp) (initialN : Z) (req : wquery)
           (S : Type) (y : consumer err bytes S) (st : S) : S * pstatus :=
    match fuel with
    | O => (st, POutOfFuel)
    | Datatypes.S fuel' =>
        match srv req with
        | LR_panic => (fst (y (inr transport_error) st), PDone)    (* c.do fails *)
        | LR_err e => (fst (y (inr (wire e)) st), PDone)
        | LR_ok items link =>
            let (s1, ok) := slice_loop items y st in
            if negb ok then (s1, PDone)
            else if (Z.of_nat (length items) <? initialN)%Z then (s1, PDone)
            else match last_opt items with
                 | None => (s1, PPanic)                             (* items[len(items)-1] *)
                 | Some l => pager_loop fuel' srv initialN (nextLink link initialN l) S y s1
                 end
        end
    end.

  Definition pager_run (fuel : nat) (srv : wquery -> lresp) (listPageSize : Z) (startAfter : bytes)
             (S : Type) (y : consumer err bytes S) (st : S) : S * pstatus :=
    pager_loop fuel srv listPageSize (listParams listPageSize startAfter) S y st.

  Definition pager (fuel : nat) (srv : wquery -> lresp) (listPageSize : Z) (startAfter : bytes)
    : Seq err bytes :=
    fun S y st => fst (pager_run fuel srv listPageSize startAfter S y st).

  (* client.Referrers: one request, no paging *)
  Definition client_Referrers (resp : lresp) : Seq err bytes :=
    match resp with
    | LR_panic => ErrorSeq transport_error
    | LR_err e => ErrorSeq (wire e)
    | LR_ok items _ => SliceSeq items
    end.
End Client.

(* New: ListPageSize == 0 selects DefaultListPageSize.  (Negative values are C18's
   subject; this model is used with ListPageSize >= 0.) *)
Definition DefaultListPageSize : Z := 1000.
Definition client_page_size (listPageSize : Z) : Z :=
  if (listPageSize =? 0)%Z then DefaultListPageSize else listPageSize.

(* ------------------------------------------------------------------ ocifilter/select.go *)

Inductive access := AccessRead | AccessWrite | AccessDelete | AccessList.

Definition star : bytes := s "*".

(* the check function Select builds from allow: name-unknown for every access kind but
   write.  (Since the repair of the "*" confusion it has no special case for "*".) *)
Definition select_check (allow : bytes -> bool) (repoName : bytes) (a : access) : option err :=
  if allow repoName then None
  else match a with
       | AccessWrite => Some ErrDenied
       | _ => Some ErrNameUnknown
       end.

(* accessCheckerRegistry.Repositories; listAll is the struct field Select sets:
   if !r.listAll { if err := r.check("*", AccessList); err != nil { return ErrorSeq(err) } } *)
Definition ac_Repositories (check : bytes -> access -> option err) (listAll : bool)
           (backend : bytes -> Seq err bytes) (startAfter : bytes) : Seq err bytes :=
  match (if listAll then None else check star AccessList) with
  | Some e => ErrorSeq e
  | None =>
      fun S y st =>
        backend startAfter S
          (fun v st =>
             match v with
             | inr e => (fst (y (inr e) st), false)           (* yield("", err); return false *)
             | inl repo =>
                 match check repo AccessRead with
                 | Some _ => (st, true)                       (* omitted *)
                 | None => y (inl repo) st
                 end
             end) st
  end.

Definition ac_Tags (check : bytes -> access -> option err)
           (backend : bytes -> bytes -> Seq err bytes) (repo startAfter : bytes) : Seq err bytes :=
  match check repo AccessList with
  | Some e => ErrorSeq e
  | None => backend repo startAfter
  end.

(* ------------------------------------------------------------------ ocifilter/sub.go *)

Definition slash : bytes := s "/".

(* strings.CutPrefix *)
Definition cut_prefix (p a : bytes) : option bytes :=
  if has_prefix p a then Some (skipn (length p) a) else None.

(* p := r.prefix + "/"; if startAfter != "" { startAfter = p + startAfter } *)
Definition sub_start (prefix startAfter : bytes) : bytes :=
  match startAfter with
  | [] => []
  | _ => (prefix ++ slash) ++ startAfter
  end.

Definition sub_Repositories (prefix : bytes) (backend : bytes -> Seq err bytes)
           (startAfter : bytes) : Seq err bytes :=
  let p := prefix ++ slash in
  fun S y st =>
    backend (sub_start prefix startAfter) S
      (fun v st =>
         match v with
         | inr e => (fst (y (inr e) st), false)
         | inl repo =>
             match cut_prefix p repo with
             | Some r => y (inl r) st
             | None => (st, true)
             end
         end) st.

(* r.repo(name) = r.prefix + "/" + name *)
Definition sub_repo (prefix name : bytes) : bytes := (prefix ++ slash) ++ name.

(* ------------------------------------------------------------------ ociunify/lister.go *)

Definition mergeIter (it0 it1 : Seq err bytes) : Seq err bytes :=
  let (xs0, err0) := All it0 in
  let (xs1, err1) := All it1 in
  let notFound0 := is_not_found err0 in
  let notFound1 := is_not_found err1 in
  if (match err0, err1 with None, None => false | _, _ => true end) && notFound0 && notFound1
  then match err0 with Some e => ErrorSeq e | None => SliceSeq [] end   (* err0 is non-nil here *)
  else
    let err0 := if notFound0 then None else err0 in
    let err1 := if notFound1 then None else err1 in
    let xs := match (length xs0 + length xs1)%nat with
              | O => []
              | _ => compact (sort_bytes (xs0 ++ xs1))
              end in
    let err := match err0 with Some e => Some e | None => err1 end in
    match err with
    | None => SliceSeq xs
    | Some e =>
        fun S y st =>
          let (s1, ok) := slice_loop xs y st in
          if ok then fst (y (inr e) s1) else s1
    end.

(* ------------------------------------------------------------------ ocidebug/debug.go *)

(* logIterReturn: passes every call through, collecting the accepted items and the
   error only for its log line *)
Definition logIterReturn {T} (it : Seq err T) : Seq err T :=
  fun S y st =>
    fst (it (S * (list T * option err))%type
            (fun v st =>
               let '(s0, (items, _err)) := st in
               match v with
               | inr e => let (s1, _) := y (inr e) s0 in ((s1, (items, Some e)), false)
               | inl item => let (s1, ok) := y (inl item) s0 in
                             ((s1, (if ok then items ++ [item] else items, _err)), ok)
               end)
            (st, ([], None))).

(* ------------------------------------------------------------------ stacks *)

(* A registry as far as listing goes. *)
Record lister := {
  l_repos : bytes -> Seq err bytes;               (* Repositories(startAfter) *)
  l_tags : bytes -> bytes -> Seq err bytes;       (* Tags(repo, startAfter) *)
  l_refs : bytes -> bytes -> Seq err bytes        (* Referrers(repo, digest, "") *)
}.

Definition mem_lister (m : memreg) : lister :=
  {| l_repos := mem_Repositories m; l_tags := mem_Tags m; l_refs := mem_Referrers m |}.

(* func.go: the three listing methods of *Funcs.  A field is a function or nil:
     if f != nil && f.Repositories_ != nil { return f.Repositories_(ctx, startAfter) }
     return ErrorSeq[string](f.newError(ctx, "Repositories", ""))
   (newError without a NewError constructor: fmt.Errorf("%s: %w", name, ErrUnsupported)) *)
Definition ErrUnsupported : err := E UNSUPPORTED [].

Record funcs := {
  f_Repositories : option (bytes -> Seq err bytes);
  f_Tags : option (bytes -> bytes -> Seq err bytes);
  f_Referrers : option (bytes -> bytes -> Seq err bytes)
}.

Definition funcs_Repositories (f : funcs) (startAfter : bytes) : Seq err bytes :=
  match f_Repositories f with Some g => g startAfter | None => ErrorSeq ErrUnsupported end.
Definition funcs_Tags (f : funcs) (repo startAfter : bytes) : Seq err bytes :=
  match f_Tags f with Some g => g repo startAfter | None => ErrorSeq ErrUnsupported end.
Definition funcs_Referrers (f : funcs) (repo digest : bytes) : Seq err bytes :=
  match f_Referrers f with Some g => g repo digest | None => ErrorSeq ErrUnsupported end.

Definition funcs_lister (f : funcs) : lister :=
  {| l_repos := funcs_Repositories f; l_tags := funcs_Tags f; l_refs := funcs_Referrers f |}.

(* the table with no field set: &ociregistry.Funcs{} *)
Definition funcs_unset : funcs := {| f_Repositories := None; f_Tags := None; f_Referrers := None |}.

(* a conforming scripted backend (a Funcs table with the three fields set): the items
   after the start point, then maybe an error *)
Definition script_funcs (xs : list bytes) (oe : option err) : funcs :=
  {| f_Repositories := Some (fun st => seq_of (filter (bltb st) xs) oe);
     f_Tags := Some (fun _ st => seq_of (filter (bltb st) xs) oe);
     f_Referrers := Some (fun _ _ => seq_of xs oe) |}.
Definition script_lister (xs : list bytes) (oe : option err) : lister := funcs_lister (script_funcs xs oe).

(* ociclient over ociserver over a backend *)
Definition hop_lister (wire : err -> err) (fuel : nat) (listPageSize : Z) (o : sopts) (b : lister) : lister :=
  let n := client_page_size listPageSize in
  {| l_repos := fun st => pager wire fuel (handleList o (l_repos b)) n st;
     l_tags := fun repo st => pager wire fuel (handleList o (l_tags b repo)) n st;
     l_refs := fun repo dg => client_Referrers wire (handleReferrers (l_refs b repo dg)) |}.

Definition ac_lister (check : bytes -> access -> option err) (listAll : bool) (b : lister) : lister :=
  {| l_repos := ac_Repositories check listAll (l_repos b);
     l_tags := ac_Tags check (l_tags b);
     l_refs := ac_Tags check (l_refs b) |}.      (* Referrers has the shape of Tags *)

Definition sub_lister (prefix : bytes) (b : lister) : lister :=
  {| l_repos := sub_Repositories prefix (l_repos b);
     l_tags := fun repo st => l_tags b (sub_repo prefix repo) st;
     l_refs := fun repo dg => l_refs b (sub_repo prefix repo) dg |}.

Definition unify_lister (a b : lister) : lister :=
  {| l_repos := fun st => mergeIter (l_repos a st) (l_repos b st);
     l_tags := fun repo st => mergeIter (l_tags a repo st) (l_tags b repo st);
     l_refs := fun repo dg => mergeIter (l_refs a repo dg) (l_refs b repo dg) |}.

Definition debug_lister (b : lister) : lister :=
  {| l_repos := fun st => logIterReturn (l_repos b st);
     l_tags := fun repo st => logIterReturn (l_tags b repo st);
     l_refs := fun repo dg => logIterReturn (l_refs b repo dg) |}.

(* ------------------------------------------------------------------ stack descriptions *)

(* The registries the correspondence harness builds, as data. *)
Inductive stack :=
  | KMem (m : memreg)                                   (* ocimem.New() filled with m *)
  | KScript (xs : list bytes) (oe : option err)         (* scripted conforming backend (a Funcs table) *)
  | KFuncs                                              (* &ociregistry.Funcs{}: no field set *)
  | KHop (listPageSize : Z) (o : sopts) (inner : stack) (* ociclient -> ociserver -> inner *)
  | KSelect (allowed : list bytes) (inner : stack)      (* ocifilter.Select, allow = membership *)
  | KSub (prefix : bytes) (inner : stack)               (* ocifilter.Sub *)
  | KUnify (a b : stack)                                (* ociunify.New *)
  | KDebug (inner : stack).                             (* ocidebug.New *)

Inductive query :=
  | QRepos                         (* Repositories(start) *)
  | QTags (repo : bytes)           (* Tags(repo, start) *)
  | QRefs (repo digest : bytes).   (* Referrers(repo, digest, "") *)

Definition mem_size (m : memreg) : nat :=
  fold_right (fun r acc => (1 + length (mr_tags (snd r)) + length (mr_manifests (snd r)) + acc)%nat) O m.

Fixpoint stack_size (k : stack) : nat :=
  match k with
  | KMem m => mem_size m
  | KScript xs _ => length xs
  | KFuncs => O
  | KHop _ _ i | KSelect _ i | KSub _ i | KDebug i => stack_size i
  | KUnify a b => (stack_size a + stack_size b)%nat
  end.

(* errors keep their code across a hop in the stacks the harness builds *)
Definition wire_id (e : err) : err := e.

Fixpoint interp (fuel : nat) (k : stack) : lister :=
  match k with
  | KMem m => mem_lister m
  | KScript xs oe => script_lister xs oe
  | KFuncs => funcs_lister funcs_unset
  | KHop n o i => hop_lister wire_id fuel n o (interp fuel i)
  | KSelect al i => ac_lister (select_check (fun r => mem_bytes r al)) true (interp fuel i)
  | KSub p i => sub_lister p (interp fuel i)
  | KUnify a b => unify_lister (interp fuel a) (interp fuel b)
  | KDebug i => debug_lister (interp fuel i)
  end.

Definition stack_fuel (k : stack) : nat := (stack_size k + 2)%nat.

Definition ask (l : lister) (q : query) (start : bytes) : Seq err bytes :=
  match q with
  | QRepos => l_repos l start
  | QTags repo => l_tags l repo start
  | QRefs repo dg => l_refs l repo dg
  end.

Definition listing (k : stack) (q : query) (start : bytes) : Seq err bytes :=
  ask (interp (stack_fuel k) k) q start.
