(* The range codec as it was before the two repairs recorded for C04
   (fixes ocirequest-parserange-empty-range and ociserver-chunkrange-first-byte):
   ParseRange added one to the inclusive end only when the end itself was positive, and
   chunkRange compared the implied length with Content-Length without knowing that "0-0"
   also denotes the first byte.  Kept so that the corpus cases keep their meaning; the
   witnesses below are the defect. *)
From Coq Require Import String.
From OCI Require Export Model.RangeCodec.

Local Open Scope Z_scope.

Definition parse_range_legacy (a : bytes) : option (Z * Z) :=
  match cut_byte DASH a with
  | None => None
  | Some (p0s, p1s) =>
      match parse_int p0s, parse_int p1s with
      | Some p0, Some p1 => Some (p0, if p1 >? 0 then wrap64 (p1 + 1) else p1)
      | _, _ => None
      end
  end.

Definition chunk_range_legacy (cr : bytes) (cl : Z) : chunk_range_result :=
  let parsed :=
    match cr with
    | [] => Some (0, 0, false)
    | _ => match parse_range_legacy cr with
           | Some (st, en) => Some (st, en, true)
           | None => None
           end
    end in
  match parsed with
  | None => CRBadRange
  | Some (start, end0, rangeOK) =>
      if rangeOK && (cl >=? 0) && negb (wrap64 (end0 - start) =? cl) then CRBadLength (wrap64 (end0 - start))
      else
        let end2 := if negb rangeOK && (cl >=? 0) then cl else end0 in
        CROk start end2
  end.

(* the first byte of an upload: header "0-0", one byte of body: refused *)
Example legacy_first_byte : chunk_range_legacy (range_string 0 1) 1 = CRBadLength 0.
Proof. reflexivity. Qed.

(* an empty closing request after exactly one byte: header "1-0": length -1: refused *)
Example legacy_after_one_byte : chunk_range_legacy (range_string 1 1) 0 = CRBadLength (-1).
Proof. reflexivity. Qed.
