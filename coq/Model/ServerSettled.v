(* Specification side of C06 for the moment at which a handler asks its BlobWriter who it is and
   how much it holds (no reference to the handlers of Model/Server.v).

   ociregistry.BlobWriter: "ID returns the opaque identifier for this writer ... It is only valid
   before Write has been called or after Close has been called."  A writer that buffers (the one
   of ociclient does) sends the chunk when Close flushes, and only then learns where the upload
   continues (a registry may name a new upload URL in the answer to every PATCH) and how much
   the registry holds.  What the writer says between a Write and the Close that follows it
   describes the session as it was before the chunk, and what it said before a Write is out of
   date once the Write has been made.

   The clauses of Model/ServerSpec.v take "the ID / the size the writer reported last in this
   exchange".  The clause here says which reports count: those made while the writer was
   settled - no Write so far, or a Close after the last Write - and not followed by a Write.
   The Location and the Range of a 202 / 204 must be built from those; when the writer was never
   asked at such a moment there is nothing they could have been built from. *)
From Coq Require Import String.
From OCI Require Export Base.Outcome Model.Server Model.ServerSpec.

Definition is_write (e : ev) : bool :=
  match e with ECall (WWrite _ _) _ => true | _ => false end.
Definition is_close (e : ev) : bool :=
  match e with ECall (WClose _) _ => true | _ => false end.

(* the last thing [f] read off the trace at a moment the writer was settled.  [dirty]: a Write has
   been made and no Close has followed it.  A Write makes every earlier report stale. *)
Fixpoint settled {A} (f : ev -> option A) (tr : list ev) (dirty : bool) (acc : option A) : option A :=
  match tr with
  | [] => acc
  | e :: t =>
      if is_write e then settled f t true None
      else if is_close e then settled f t false acc
      else settled f t dirty (match f e with
                              | Some x => if dirty then acc else Some x
                              | None => acc
                              end)
  end.

Definition settled_id (tr : list ev) : option bytes := settled upload_id_of tr false None.
Definition settled_size (tr : list ev) : option (option Z) := settled upload_size_of tr false None.

(* where the upload continues: the repository it was opened in and the ID the settled writer reported *)
Definition settled_location_ok (tr : list ev) (v : option bytes) : bool :=
  match last_of upload_repo_of tr None, settled_id tr with
  | Some r, Some id => option_eqb beqb v (Some (upload_location r id))
  | _, _ => false
  end.

(* how far it got: the size the settled writer reported; not asked then: an upload opened afresh
   in this exchange, which holds nothing *)
Definition settled_range_ok (tr : list ev) (v : option bytes) : bool :=
  match settled_size tr with
  | Some (Some size) => range_value_ok (range_end_for size) v
  | Some None => range_value_ok None v
  | None => existsb upload_fresh tr && range_value_ok (Some 0%Z) v
  end.

(* upload accepted (202 of an exchange that opened an upload) / upload status (204) *)
Definition settled_ok (tr : list ev) (resp : hresp) : bool :=
  let h := p_hdrs resp in
  let st := p_status resp in
  match p_json resp with
  | Some (JErr _) => true
  | _ =>
      implb' (((st =? 202)%Z && existsb upload_open tr) || (st =? 204)%Z)
             (settled_location_ok tr (hget H_location h) && settled_range_ok tr (hget H_range h))
  end.

(* every report of the trace that counts for Model/ServerSpec.v was made while the writer was settled *)
Definition reports_settled (tr : list ev) : Prop :=
  settled_id tr = last_of upload_id_of tr None /\ settled_size tr = last_of upload_size_of tr None.
