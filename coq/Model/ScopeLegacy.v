(* ociauth/scope.go as it was BEFORE fix 8ef16a4 (kept for the record of the finding): a
   repository scope with an empty name counted as "known" and was therefore stored under
   the empty repository name, which is also the CatalogScope sentinel.  Only the two
   functions the fix touched (isKnown, Holds) and NewScope, which calls isKnown, differ from
   Model/Scope.v. *)
From Coq Require Import String.
From OCI Require Export Model.Scope.

(* func (rs ResourceScope) isKnown() bool    -- before the fix *)
Definition is_known_legacy (rs : rscope) : bool :=
  if beqb (rtype rs) TypeRepository then negb (parse_known_action (ract rs) =? unknownAction)
  else if beqb (rtype rs) TypeRegistry then rs_eqb rs CatalogScope
  else false.

Fixpoint new_loop_legacy (rss : list rscope) (rrepos : list bytes) (racts : list N) (rothers : list rscope)
  : list bytes * list N * list rscope :=
  match rss with
  | [] => (rev rrepos, rev racts, rev rothers)
  | rs :: rest =>
      if negb (is_known_legacy rs) then new_loop_legacy rest rrepos racts (rs :: rothers)
      else if beqb (rtype rs) TypeRegistry then
        new_loop_legacy rest ([] :: rrepos) (N.shiftl 1 pullAction :: racts) rothers
      else
        let actionMask := N.shiftl 1 (parse_known_action (ract rs)) in
        match rrepos, racts with
        | last :: _, a :: racts' =>
            if beqb last (rres rs) then new_loop_legacy rest rrepos (N.lor a actionMask :: racts') rothers
            else new_loop_legacy rest (rres rs :: rrepos) (actionMask :: racts) rothers
        | _, _ => new_loop_legacy rest (rres rs :: rrepos) (actionMask :: racts) rothers
        end
  end.

Definition NewScope_legacy (rss : list rscope) : scope :=
  let rss1 := compact rs_eqb (isort rs_cmp rss) in
  let '(repos, acts, oth) := new_loop_legacy rss1 [] [] [] in
  {| original := []; unlimited := false; repositories := repos; actions := acts;
     others := compact rs_eqb (isort rs_cmp oth) |}.

(* func (s Scope) Holds(r ResourceScope) bool    -- before the fix *)
Definition Holds_legacy (sc : scope) (r : rscope) : R unit bool :=
  if IsUnlimited sc then Ok true
  else if rs_eqb r CatalogScope then
    do (_, ok) <- bsearch bcmp (repositories sc) [];
    Ok ok
  else
    let in_others :=
      do (_, ok) <- bsearch rs_cmp (others sc) r;
      Ok ok in
    if beqb (rtype r) TypeRepository then
      let action := parse_known_action (ract r) in
      if negb (action =? unknownAction) then
        do (i, ok) <- bsearch bcmp (repositories sc) (rres r);
        if negb ok then Ok false
        else match nth_error (actions sc) i with
             | None => Panic
             | Some a => Ok (negb (N.land a (N.shiftl 1 action) =? 0))
             end
      else in_others
    else in_others.
