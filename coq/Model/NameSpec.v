(* The name grammars of the OCI specifications, written down from the text of the
   specifications and from nothing else: which repository names, tags and digests a registry
   has to take.

   This is what the correspondence of C02 runs the implementation model (Model/Mem.v) and the
   reference registry (Model/MemSpec.v) with - both take name validity as a parameter.  It is
   deliberately NOT the model of the validators in ociregistry/ociref (Model/Ref.v follows
   that Go code line by line) and NOT a table computed by the library under test: a validator
   that changes its verdict on a legal name has to show as "refused where the reference
   registry accepts", which it cannot when its own verdict is handed to both sides as the
   truth.  Proofs/NameSpec.v proves that the model of ociref as it is now accepts exactly
   these grammars.

   distribution-spec v1.1, "Pulling manifests" (the regular expressions of the text, spelt as
   productions because a star next to a parenthesis would end this comment):
     name   ::= elem { "/" elem }
     elem   ::= alnum { sep alnum }
     alnum  ::= one or more of a-z 0-9
     sep    ::= "." | "_" | "__" | one or more "-"
     tag    ::= one of a-z A-Z 0-9 "_", then at most 127 of a-z A-Z 0-9 "_" "." "-"
   image-spec v1.1, descriptor, "Digests":
     digest ::= algorithm ":" encoded; registered algorithms sha256 (64 digits of a-f 0-9) and
     sha512 (128 digits); go-digest registers sha384 (96 digits) beside them.  A digest of an
     algorithm that is not registered cannot be verified and is not accepted. *)
From Coq Require Import String.
From OCI Require Export Base.Outcome Base.Regex.

(* ---------- <name> ---------- *)

(* [a-z0-9] *)
Definition sp_lcdigit : regex := Chr (mkcls false [(97, 122); (48, 57)]).
(* alnum *)
Definition sp_alnum : regex := Plus sp_lcdigit.
(* sep *)
Definition sp_sep : regex := Alt (Byte 46) (Alt (Byte 95) (Alt (Lit [95; 95]) (Plus (Byte 45)))).
(* elem *)
Definition sp_elem : regex := Cat sp_alnum (Star (Cat sp_sep sp_alnum)).
(* name *)
Definition sp_name : regex := Cat sp_elem (Star (Cat (Byte 47) sp_elem)).

Definition spec_valid_repo (w : bytes) : bool := matches sp_name w.

(* ---------- <reference> as a tag ---------- *)

Definition sp_between (lo hi c : N) : bool := (lo <=? c) && (c <=? hi).
(* [a-zA-Z0-9_] *)
Definition sp_word (c : N) : bool := sp_between 97 122 c || sp_between 65 90 c || sp_between 48 57 c || (c =? 95).
(* [a-zA-Z0-9._-] *)
Definition sp_tagchar (c : N) : bool := sp_word c || (c =? 46) || (c =? 45).

Definition spec_valid_tag (w : bytes) : bool :=
  match w with
  | [] => false
  | c :: rest => sp_word c && forallb sp_tagchar rest && (length rest <=? 127)%nat
  end.

(* ---------- digest ---------- *)

(* [a-f0-9] *)
Definition sp_lhex (c : N) : bool := sp_between 48 57 c || sp_between 97 102 c.

(* the rest of w after the prefix p *)
Fixpoint strip_prefix (p w : bytes) : option bytes :=
  match p, w with
  | [], _ => Some w
  | a :: p', b :: w' => if a =? b then strip_prefix p' w' else None
  | _ :: _, [] => None
  end.

(* registered algorithm (with its colon), number of hex digits *)
Definition sp_algorithms : list (bytes * nat) :=
  [(s "sha256:", 64%nat); (s "sha384:", 96%nat); (s "sha512:", 128%nat)].

Definition spec_valid_digest (d : bytes) : bool :=
  existsb (fun a => match strip_prefix (fst a) d with
                    | Some e => Nat.eqb (length e) (snd a) && forallb sp_lhex e
                    | None => false
                    end) sp_algorithms.
