(* Model of ociregistry/ociunify (unify.go, reader.go, writer.go, lister.go, deleter.go):
   the registry that presents two member registries as one.

   The unifier is a function of TWO arbitrary member registries
       step0 : registry B0      step1 : registry B1
   (Model/Iface.v) and yields a registry over [ustate] = both member states + the table of
   paired upload writers + a ghost log of every call made on each member.  Go's
   goroutines are not modelled here (C16 / Model/UnifyConc.v does the protocol of
   runReadConcurrent); what they leave observable is a [choice]:

     c_first1      the answer of member 1 arrives before the answer of member 0
                   (runReadConcurrent's channel c; PushBlob's resultc)
     c_cut0/1      PushBlob only: the content stream of that member ended in a read error
                   because the OTHER member stopped reading (io.Pipe closed with its
                   error); the value is the error that member then returned.

   Hypotheses on members that the Go code relies on and that the vocabulary of Iface.v
   builds in (they are restated in props/C15.json):
     * a member call returns a value or an error, never both: in particular a member
       that fails PushBlobChunked* returns a nil writer (the unifier calls Close on
       whatever non-nil writer it was handed - ocidebug violated this, defect 15);
     * a successful GetTag/ResolveTag/reader carries a descriptor (non-nil reader);
     * a member whose content stream is cut returns an error and leaves its state as it was;
     * the caller's own io.Reader does not fail.

   Errors: a member error is [E code tag]; the tag stands for its identity.  The unifier's
   wrappers are modelled on what errors.As / errors.Is can see:
     fmt.Errorf("r0 failed: %w", e)              code of e,            tag w(t)
     fmt.Errorf("r0 and r1 failed: %w; %w", ..)  first code that is set, tag w(t0;t1)
   and errors the unifier makes up itself carry no code ([err_unifier]).

   The upload-ID codec (base64.RawURLEncoding of json.Marshal([]string{id0,id1}) and its
   inverse) is a pair of Section variables [idenc]/[iddec]: encoding/json is an oracle in
   this development.  In case files they are the finite tables the harness computed with
   its own reference codec. *)
From Coq Require Import String.
From OCI Require Export Model.Iface.

(* ---------- decidable equality on the Iface vocabulary ---------- *)

Definition op_eqb (a b : op) : bool :=
  match a, b with
  | GetBlob r d, GetBlob r' d' => beqb r r' && beqb d d'
  | GetBlobRange r d o0 o1, GetBlobRange r' d' o0' o1' =>
      beqb r r' && beqb d d' && Z.eqb o0 o0' && Z.eqb o1 o1'
  | GetManifest r d, GetManifest r' d' => beqb r r' && beqb d d'
  | GetTag r t, GetTag r' t' => beqb r r' && beqb t t'
  | ResolveBlob r d, ResolveBlob r' d' => beqb r r' && beqb d d'
  | ResolveManifest r d, ResolveManifest r' d' => beqb r r' && beqb d d'
  | ResolveTag r t, ResolveTag r' t' => beqb r r' && beqb t t'
  | PushBlob r de c, PushBlob r' de' c' => beqb r r' && desc_eqb de de' && beqb c c'
  | PushBlobChunked r h, PushBlobChunked r' h' => beqb r r' && Z.eqb h h'
  | PushBlobChunkedResume r i o h, PushBlobChunkedResume r' i' o' h' =>
      beqb r r' && beqb i i' && Z.eqb o o' && Z.eqb h h'
  | MountBlob f t d, MountBlob f' t' d' => beqb f f' && beqb t t' && beqb d d'
  | PushManifest r t c m, PushManifest r' t' c' m' => beqb r r' && beqb t t' && beqb c c' && beqb m m'
  | DeleteBlob r d, DeleteBlob r' d' => beqb r r' && beqb d d'
  | DeleteManifest r d, DeleteManifest r' d' => beqb r r' && beqb d d'
  | DeleteTag r t, DeleteTag r' t' => beqb r r' && beqb t t'
  | Repositories a0, Repositories a' => beqb a0 a'
  | Tags r a0, Tags r' a' => beqb r r' && beqb a0 a'
  | Referrers r d a0, Referrers r' d' a' => beqb r r' && beqb d d' && beqb a0 a'
  | WWrite w d, WWrite w' d' => N.eqb w w' && beqb d d'
  | WClose w, WClose w' => N.eqb w w'
  | WSize w, WSize w' => N.eqb w w'
  | WChunkSize w, WChunkSize w' => N.eqb w w'
  | WID w, WID w' => N.eqb w w'
  | WCommit w d, WCommit w' d' => N.eqb w w' && beqb d d'
  | WCancel w, WCancel w' => N.eqb w w'
  | _, _ => false
  end.

Definition opt_err_eqb := option_eqb err_eqb.

Definition res_eqb (a b : res) : bool :=
  match a, b with
  | RDesc d, RDesc d' => desc_eqb d d'
  | RRead d x, RRead d' x' => desc_eqb d d' && beqb x x'
  | RList l e, RList l' e' => list_eqb beqb l l' && opt_err_eqb e e'
  | RDescs l e, RDescs l' e' => list_eqb desc_eqb l l' && opt_err_eqb e e'
  | RWriter w, RWriter w' => N.eqb w w'
  | RN n, RN n' => Z.eqb n n'
  | RStr x, RStr x' => beqb x x'
  | RUnit, RUnit => true
  | _, _ => false
  end.

Definition result_eqb (a b : result) : bool :=
  match a, b with
  | Ok x, Ok y => res_eqb x y
  | Err e, Err e' => err_eqb e e'
  | Panic, Panic => true
  | OutOfFuel, OutOfFuel => true
  | _, _ => false
  end.

(* ---------- what the unifier adds to the vocabulary ---------- *)

Inductive policy := ReadSequential | ReadConcurrent.

Record choice := {
  c_first1 : bool;
  c_cut0 : option err;
  c_cut1 : option err
}.
Definition choose (first1 : bool) : choice := {| c_first1 := first1; c_cut0 := None; c_cut1 := None |}.

(* unifiedBlobWriter{w [2]BlobWriter; size int64} *)
Record uwriter := { uw0 : wid; uw1 : wid; uw_size : Z }.

(* errors the unifier makes up itself: fmt.Errorf without %w, no code *)
Definition err_unifier : err := E ENone (s "unifier").
Definition err_conflict := err_unifier.       (* "conflicting results for tag" *)
Definition err_one_push := err_unifier.       (* "one push succeeded where the other failed" *)
Definition err_malformed_id := err_unifier.   (* "malformed ID ..." *)
Definition err_size_disagree := err_unifier.  (* "registries do not agree on upload size" *)
Definition err_no_writer := err_unifier.      (* not Go: an operation on a writer that was never handed out *)

Definition tag_wrap1 (t : bytes) : bytes := s "w(" ++ t ++ s ")".
Definition tag_wrap2 (t0 t1 : bytes) : bytes := s "w(" ++ t0 ++ s ";" ++ t1 ++ s ")".
(* errors.As on an error wrapping e0 then e1 finds the first that carries a code *)
Definition first_code (c0 c1 : ecode) : ecode := match c0 with ENone => c1 | _ => c0 end.
Definition err_one (e : err) : err := E (e_code e) (tag_wrap1 (e_tag e)).
Definition err_two (e0 e1 : err) : err :=
  E (first_code (e_code e0) (e_code e1)) (tag_wrap2 (e_tag e0) (e_tag e1)).

(* func bothResults[T result[T]](r0, r1 T) T *)
Definition both_results (r0 r1 : result) : result :=
  match r0, r1 with
  | Ok _, Ok _ => r0
  | Err e0, Err e1 => Err (err_two e0 e1)     (* "r0 and r1 failed: %w; %w" *)
  | Err e0, Ok _ => Err (err_one e0)          (* "r0 failed: %w" *)
  | Ok _, Err e1 => Err (err_one e1)          (* "r1 failed: %w" *)
  | Panic, _ | _, Panic => Panic
  | _, _ => OutOfFuel
  end.

(* the descriptor digest a successful tag read carries *)
Definition res_digest (r : res) : bytes :=
  match r with
  | RRead d _ | RDesc d => d_digest d
  | _ => []
  end.

Definition res_n (r : result) : Z := match r with Ok (RN n) => n | _ => 0 end.
Definition res_str (r : result) : bytes := match r with Ok (RStr x) => x | _ => [] end.

(* ---------- mergeIter (lister.go) ---------- *)

Section Merge.
  Context {T : Type}.
  Variable key : T -> bytes.    (* cmp a b = strings.Compare (key a) (key b) *)

  (* slices.SortFunc: modelled as the stable insertion sort (pdqsort is not stable; the
     order among elements that compare equal only matters for which of them CompactFunc
     keeps, i.e. when two descriptors with one digest differ in another field) *)
  Fixpoint insert_by (a : T) (l : list T) : list T :=
    match l with
    | [] => [a]
    | b :: l' => if bleb (key a) (key b) then a :: l else b :: insert_by a l'
    end.
  Fixpoint sort_by (l : list T) : list T :=
    match l with
    | [] => []
    | a :: l' => insert_by a (sort_by l')
    end.

  (* slices.CompactFunc(xs, cmp == 0): each run of equal elements is replaced by its first *)
  Fixpoint compact_from (last : T) (l : list T) : list T :=
    match l with
    | [] => []
    | b :: l' => if beqb (key last) (key b) then compact_from last l' else b :: compact_from b l'
    end.
  Definition compact_by (l : list T) : list T :=
    match l with
    | [] => []
    | a :: l' => a :: compact_from a l'
    end.

  (* errors.Is(err, ociregistry.ErrNameUnknown) *)
  Definition not_found (e : option err) : bool :=
    match e with
    | Some e => ecode_eqb (e_code e) NAME_UNKNOWN
    | None => false
    end.
  Definition is_some {A} (o : option A) : bool := match o with Some _ => true | None => false end.

  (* xs0, err0 := All(it0); xs1, err1 := All(it1); ... ; result: the items, then the error *)
  Definition merge_iter (xs0 : list T) (err0 : option err) (xs1 : list T) (err1 : option err)
      : list T * option err :=
    let any := is_some err0 || is_some err1 in        (* if err0 != nil || err1 != nil *)
    let notFound0 := not_found err0 in
    let notFound1 := not_found err1 in
    if any && (notFound0 && notFound1) then
      ([], err0)                                   (* ErrorSeq(err0) *)
    else
      let err0' := if any && notFound0 then None else err0 in
      let err1' := if any && notFound1 then None else err1 in
      let xs := if (0 <? length xs0 + length xs1)%nat
                then compact_by (sort_by (xs0 ++ xs1)) else [] in
      (xs, match err0' with Some e => Some e | None => err1' end).
End Merge.

(* a member's drained iterator: items, then possibly an error.  A member result that is
   an error value stands for ErrorSeq(err). *)
Definition as_strings (r : result) : list bytes * option err :=
  match r with
  | Ok (RList l e) => (l, e)
  | Err e => ([], Some e)
  | _ => ([], None)
  end.
Definition as_descs (r : result) : list desc * option err :=
  match r with
  | Ok (RDescs l e) => (l, e)
  | Err e => ([], Some e)
  | _ => ([], None)
  end.

Definition is_panicky (r : result) : bool := match r with Panic | OutOfFuel => true | _ => false end.

Definition merge_strings (r0 r1 : result) : result :=
  if is_panicky r0 then r0 else if is_panicky r1 then r1 else
  let '(xs0, e0) := as_strings r0 in
  let '(xs1, e1) := as_strings r1 in
  let '(xs, e) := merge_iter (fun a => a) xs0 e0 xs1 e1 in
  Ok (RList xs e).

Definition merge_descs (r0 r1 : result) : result :=
  if is_panicky r0 then r0 else if is_panicky r1 then r1 else
  let '(xs0, e0) := as_descs r0 in
  let '(xs1, e1) := as_descs r1 in
  let '(xs, e) := merge_iter d_digest xs0 e0 xs1 e1 in     (* compareDescriptor *)
  Ok (RDescs xs e).

(* ---------- the unifier ---------- *)

Section Unify.
  Context {B0 B1 : Type}.
  Variable step0 : registry B0.
  Variable step1 : registry B1.
  Variable idenc : bytes -> bytes -> bytes.          (* unifiedBlobWriter.ID *)
  Variable iddec : bytes -> option (list bytes).     (* RawURLEncoding.DecodeString; json.Unmarshal into []string *)

  Record ustate := {
    u_b0 : B0;
    u_b1 : B1;
    u_ws : list uwriter;      (* writer number k of the unifier = position k *)
    u_log0 : list op;         (* ghost: calls made on member 0, latest first *)
    u_log1 : list op
  }.

  Definition uinit (b0 : B0) (b1 : B1) : ustate :=
    {| u_b0 := b0; u_b1 := b1; u_ws := []; u_log0 := []; u_log1 := [] |}.

  Definition call0 (st : ustate) (o : op) : ustate * result :=
    let '(b, r) := step0 (u_b0 st) o in
    ({| u_b0 := b; u_b1 := u_b1 st; u_ws := u_ws st; u_log0 := o :: u_log0 st; u_log1 := u_log1 st |}, r).

  Definition call1 (st : ustate) (o : op) : ustate * result :=
    let '(b, r) := step1 (u_b1 st) o in
    ({| u_b0 := u_b0 st; u_b1 := b; u_ws := u_ws st; u_log0 := u_log0 st; u_log1 := o :: u_log1 st |}, r).

  (* func both(u, f) (T, T): f on r0 and on r1 (concurrently: the members share no state),
     results in member order *)
  Definition both (st : ustate) (o0 o1 : op) : ustate * result * result :=
    let '(st1, r0) := call0 st o0 in
    let '(st2, r1) := call1 st1 o1 in
    (st2, r0, r1).

  (* the first that returns without error *)
  Definition first_success (ra rb : result) : result :=
    match ra with
    | Err _ => rb
    | _ => ra
    end.

  (* runRead / runReadWithCancel: runReadSequential or runReadConcurrent *)
  Definition run_read (pol : policy) (first1 : bool) (st : ustate) (o : op) : ustate * result :=
    match pol with
    | ReadSequential =>
        (* r := f(ctx, u.r0, 0); if r.error() == nil { return r }; return f(ctx, u.r1, 1) *)
        let '(st1, r0) := call0 st o in
        match r0 with
        | Err _ => call1 st1 o
        | _ => (st1, r0)
        end
    | ReadConcurrent =>
        (* both senders run f; the first answer received is returned when it is a
           success, otherwise the second answer is returned whatever it is *)
        let '(st2, r0, r1) := both st o o in
        (st2, if first1 then first_success r1 r0 else first_success r0 r1)
    end.

  (* GetTag / ResolveTag *)
  Definition tag_result (r0 r1 : result) : result :=
    match r0, r1 with
    | Ok a, Ok b =>
        if beqb (res_digest a) (res_digest b) then r0      (* r1.x.Close(); return r0.get() *)
        else Err err_conflict                              (* both closed *)
    | Err _, Err _ => r0
    | Ok _, Err _ => r0
    | Err _, Ok _ => r1
    | Panic, _ | _, Panic => Panic
    | _, _ => OutOfFuel
    end.

  Definition tag_read (st : ustate) (o : op) : ustate * result :=
    let '(st2, r0, r1) := both st o o in (st2, tag_result r0 r1).

  (* PushManifest: if (r0.err == nil) == (r1.err == nil) { return r0.get() } *)
  Definition same_outcome (ra rb : result) : result :=
    match ra, rb with
    | Ok _, Ok _ | Err _, Err _ => ra
    | Ok _, Err _ | Err _, Ok _ => Err err_one_push
    | Panic, _ | _, Panic => Panic
    | _, _ => OutOfFuel
    end.

  Definition push_manifest (st : ustate) (o : op) : ustate * result :=
    let '(st2, r0, r1) := both st o o in (st2, same_outcome r0 r1).

  Definition is_errb (r : result) : bool := match r with Err _ => true | _ => false end.

  (* PushBlob: the content is copied through two io.Pipes by io.MultiWriter.  A member
     that returns closes its pipe with its error, so a member that fails before it has
     consumed the content cuts the other member's stream.  [c_cut_i = Some e] is honoured
     only in the situation in which the pipes can produce it: the other member was called,
     failed, and is not itself cut.  r0 := <-resultc; r1 := <-resultc are in ARRIVAL order. *)
  Definition push_blob (c : choice) (st : ustate) (o : op) : ustate * result :=
    let '(sta, r0) := call0 st o in
    let '(stb, r1) := call1 st o in
    let cut0 := match c_cut0 c, c_cut1 c with Some _, None => is_errb r1 | _, _ => false end in
    let cut1 := match c_cut1 c, c_cut0 c with Some _, None => is_errb r0 | _, _ => false end in
    let r0' := match c_cut0 c with Some e => if cut0 then Err e else r0 | None => r0 end in
    let r1' := match c_cut1 c with Some e => if cut1 then Err e else r1 | None => r1 end in
    let st' := {| u_b0 := if cut0 then u_b0 st else u_b0 sta;
                  u_b1 := if cut1 then u_b1 st else u_b1 stb;
                  u_ws := u_ws st;
                  u_log0 := if cut0 then u_log0 st else u_log0 sta;
                  u_log1 := if cut1 then u_log1 st else u_log1 stb |} in
    (st', if c_first1 c then same_outcome r1' r0' else same_outcome r0' r1').

  (* t2.close(): Close on the value when it is an io.Closer, i.e. a non-nil writer *)
  Definition close0 (st : ustate) (r : result) : ustate :=
    match r with Ok (RWriter w) => fst (call0 st (WClose w)) | _ => st end.
  Definition close1 (st : ustate) (r : result) : ustate :=
    match r with Ok (RWriter w) => fst (call1 st (WClose w)) | _ => st end.

  Definition add_writer (st : ustate) (w0 w1 : wid) (size : Z) : ustate * result :=
    ({| u_b0 := u_b0 st; u_b1 := u_b1 st;
        u_ws := u_ws st ++ [{| uw0 := w0; uw1 := w1; uw_size := size |}];
        u_log0 := u_log0 st; u_log1 := u_log1 st |},
     Ok (RWriter (N.of_nat (length (u_ws st))))).

  (* PushBlobChunked *)
  Definition push_chunked (st : ustate) (o : op) : ustate * result :=
    let '(st2, r0, r1) := both st o o in
    match r0, r1 with
    | Ok (RWriter w0), Ok (RWriter w1) =>
        let '(st3, sz) := call0 st2 (WSize w0) in      (* size := w0.Size(), assumed to agree with w1.Size *)
        add_writer st3 w0 w1 (res_n sz)
    | _, _ =>
        (* r0.close(); r1.close(); return nil, bothResults(r0, r1).err *)
        let st3 := close1 (close0 st2 r0) r1 in
        (st3, match both_results r0 r1 with
              | Ok _ => OutOfFuel       (* two successes that are not writers: not a member of the interface *)
              | r => r
              end)
    end.

  (* PushBlobChunkedResume *)
  Definition push_resume (st : ustate) (r id : bytes) (off hint : Z) : ustate * result :=
    match iddec id with
    | None => (st, Err err_malformed_id)
    | Some ids =>
        match ids with
        | [id0; id1] =>
            let '(st2, r0, r1) := both st (PushBlobChunkedResume r id0 off hint)
                                          (PushBlobChunkedResume r id1 off hint) in
            match r0, r1 with
            | Ok (RWriter w0), Ok (RWriter w1) =>
                let '(st3, sz0) := call0 st2 (WSize w0) in
                let '(st4, sz1) := call1 st3 (WSize w1) in
                if Z.eqb (res_n sz1) (res_n sz0) then add_writer st4 w0 w1 (res_n sz0)
                else (close1 (close0 st4 r0) r1, Err err_size_disagree)
            | _, _ =>
                let st3 := close1 (close0 st2 r0) r1 in
                (st3, match both_results r0 r1 with
                      | Ok _ => OutOfFuel
                      | r => r
                      end)
            end
        | _ => (st, Err err_malformed_id)        (* expected two elements *)
        end
    end.

  Definition get_writer (st : ustate) (k : wid) : option uwriter := nth_error (u_ws st) (N.to_nat k).

  Fixpoint upd_nth {A} (i : nat) (f : A -> A) (l : list A) : list A :=
    match l, i with
    | [], _ => []
    | a :: l', O => f a :: l'
    | a :: l', S i' => a :: upd_nth i' f l'
    end.

  Definition grow_writer (st : ustate) (k : wid) (n : Z) : ustate :=
    {| u_b0 := u_b0 st; u_b1 := u_b1 st;
       u_ws := upd_nth (N.to_nat k)
                 (fun w => {| uw0 := uw0 w; uw1 := uw1 w; uw_size := uw_size w + n |}) (u_ws st);
       u_log0 := u_log0 st; u_log1 := u_log1 st |}.

  (* the methods of *unifiedBlobWriter *)
  Definition writer_op (st : ustate) (k : wid) (w : uwriter)
             (mk : wid -> op) (fin : ustate -> result -> ustate * result) : ustate * result :=
    let '(st2, r0, r1) := both st (mk (uw0 w)) (mk (uw1 w)) in
    fin st2 (both_results r0 r1).

  Definition unit_of (r : result) : result := match r with Ok _ => Ok RUnit | _ => r end.

  Definition ustep (pol : policy) (c : choice) (st : ustate) (o : op) : ustate * result :=
    match o with
    | GetBlob _ _ | GetBlobRange _ _ _ _ | GetManifest _ _ | ResolveBlob _ _ | ResolveManifest _ _ =>
        run_read pol (c_first1 c) st o
    | GetTag _ _ | ResolveTag _ _ => tag_read st o
    | PushBlob _ _ _ => push_blob c st o
    | PushManifest _ _ _ _ => push_manifest st o
    | PushBlobChunked _ _ => push_chunked st o
    | PushBlobChunkedResume r id off hint => push_resume st r id off hint
    | MountBlob _ _ _ | DeleteBlob _ _ | DeleteManifest _ _ | DeleteTag _ _ =>
        let '(st2, r0, r1) := both st o o in (st2, both_results r0 r1)
    | Repositories _ | Tags _ _ =>
        let '(st2, r0, r1) := both st o o in (st2, merge_strings r0 r1)
    | Referrers _ _ _ =>
        let '(st2, r0, r1) := both st o o in (st2, merge_descs r0 r1)
    | WWrite k data =>
        match get_writer st k with
        | None => (st, Err err_no_writer)
        | Some w =>
            writer_op st k w (fun wi => WWrite wi data)
              (fun st2 r => match r with
                            | Ok _ => (grow_writer st2 k (blen data), Ok (RN (blen data)))
                            | _ => (st2, r)       (* return 0, r.err *)
                            end)
        end
    | WClose k =>
        match get_writer st k with
        | None => (st, Err err_no_writer)
        | Some w => writer_op st k w WClose (fun st2 r => (st2, unit_of r))
        end
    | WCancel k =>
        match get_writer st k with
        | None => (st, Err err_no_writer)
        | Some w => writer_op st k w WCancel (fun st2 r => (st2, unit_of r))
        end
    | WCommit k d =>
        match get_writer st k with
        | None => (st, Err err_no_writer)
        | Some w => writer_op st k w (fun wi => WCommit wi d) (fun st2 r => (st2, r))
        end
    | WSize k =>
        match get_writer st k with
        | None => (st, Err err_no_writer)
        | Some w => (st, Ok (RN (uw_size w)))          (* the unifier's own count; no member is asked *)
        end
    | WChunkSize k =>
        match get_writer st k with
        | None => (st, Err err_no_writer)
        | Some w =>
            (* max(w.w[0].ChunkSize(), w.w[1].ChunkSize()) *)
            let '(st2, r0, r1) := both st (WChunkSize (uw0 w)) (WChunkSize (uw1 w)) in
            (st2, Ok (RN (Z.max (res_n r0) (res_n r1))))
        end
    | WID k =>
        match get_writer st k with
        | None => (st, Err err_no_writer)
        | Some w =>
            (* base64url(json([w.w[0].ID(), w.w[1].ID()])); ID() returns a string, never an error *)
            let '(st2, r0, r1) := both st (WID (uw0 w)) (WID (uw1 w)) in
            (st2, match r0, r1 with
                  | Ok (RStr id0), Ok (RStr id1) => Ok (RStr (idenc id0 id1))
                  | _, _ => match both_results r0 r1 with
                            | Ok _ => OutOfFuel      (* answers that are not strings: not a member of the interface *)
                            | r => r
                            end
                  end)
        end
    end.

  (* a history through the unifier: every call comes with the choice the scheduler made *)
  Fixpoint urun (pol : policy) (st : ustate) (h : list (choice * op)) : ustate * list result :=
    match h with
    | [] => (st, [])
    | (c, o) :: h' =>
        let '(st1, r) := ustep pol c st o in
        let '(st2, rs) := urun pol st1 h' in (st2, r :: rs)
    end.
End Unify.

Arguments ustate : clear implicits.

(* ---------- classification of operations ---------- *)

(* reads addressed by digest: served by runRead under the read policy *)
Definition is_digest_read (o : op) : bool :=
  match o with
  | GetBlob _ _ | GetBlobRange _ _ _ _ | GetManifest _ _ | ResolveBlob _ _ | ResolveManifest _ _ => true
  | _ => false
  end.
Definition is_tag_read (o : op) : bool :=
  match o with GetTag _ _ | ResolveTag _ _ => true | _ => false end.
Definition is_listing (o : op) : bool :=
  match o with Repositories _ | Tags _ _ | Referrers _ _ _ => true | _ => false end.
(* writes that are one call on each member with the caller's arguments *)
Definition is_simple_write (o : op) : bool :=
  match o with
  | PushManifest _ _ _ _ | MountBlob _ _ _ | DeleteBlob _ _ | DeleteManifest _ _ | DeleteTag _ _ => true
  | _ => false
  end.
