(* HTTP vocabulary for the client model (Model/Client.v) and a model of what sits between
   ociclient and the wire: net/http's Client.Do with its redirect loop.

     net/http/client.go      Client.do, redirectBehavior, defaultCheckRedirect
     net/http/request.go     NewRequestWithContext (Body / GetBody / NoBody), outgoingLength
     net/http/header.go      Header.Get (first value under the canonical key)
     strconv                 ParseInt(s, 10, 64), Atoi
     internal/ocirequest     ParseRange, RangeString (request.go)

   The server is a parameter: a state type and a step function answering one request with a
   response or a transport error.  Every request that reaches the transport is appended to a
   log together with the number of bytes the client read from the response body, so "how many
   requests" and "how much of an error body" are statements about the log.

   URLs are kept symbolic ([url]): what the client does to them (Construct, ResolveReference,
   urlWithDigest) is recorded, net/url's parsing is an oracle ([url_ok] below). *)
From Coq Require Import String.
From OCI Require Export Base.Outcome.

Local Open Scope Z_scope.

(* ---------------------------------------------------------------- strconv *)

Definition is_digit (c : N) : bool := ((48 <=? c) && (c <=? 57))%N.

Fixpoint digits_val (l : bytes) (acc : N) : option N :=
  match l with
  | [] => Some acc
  | c :: r => if is_digit c then digits_val r (acc * 10 + (c - 48))%N else None
  end.

(* the unsigned digits of ParseInt: at least one, decimal only (base 10 is explicit, so no
   underscores) *)
Definition parse_digits (l : bytes) : option N :=
  match l with [] => None | _ => digits_val l 0%N end.

Definition two63 : Z := 9223372036854775808.
Definition two64 : Z := 18446744073709551616.

(* strconv.ParseInt(s, 10, 64): None = any error (syntax or range) *)
Definition parse_int64 (l : bytes) : option Z :=
  match l with
  | [] => None
  | c :: r =>
      let '(neg, ds) := if (c =? 43)%N then (false, r) else if (c =? 45)%N then (true, r)
                        else (false, l) in
      match parse_digits ds with
      | None => None
      | Some n => let z := Z.of_N n in
                  if neg then (if z <=? two63 then Some (- z) else None)
                  else (if z <? two63 then Some z else None)
      end
  end.

(* strconv.Atoi on a 64-bit platform: same language and range as ParseInt(s, 10, 64) *)
Definition atoi (l : bytes) : option Z := parse_int64 l.

(* int64 arithmetic wraps *)
Definition w64 (z : Z) : Z := (z + two63) mod two64 - two63.

(* decimal printing of %d *)
Fixpoint fmt_fuel (f : nat) (n : N) (acc : bytes) : bytes :=
  match f with
  | O => acc
  | S f' => let acc' := (48 + n mod 10)%N :: acc in
            if (n <? 10)%N then acc' else fmt_fuel f' (n / 10)%N acc'
  end.
Definition fmt_N (n : N) : bytes := fmt_fuel (S (N.size_nat n)) n [].
Definition fmt_d (z : Z) : bytes :=
  match z with
  | Z0 => [48%N]
  | Zpos p => fmt_N (Npos p)
  | Zneg p => 45%N :: fmt_N (Npos p)
  end.

(* ---------------------------------------------------------------- ocirequest ranges *)

(* ocirequest.ParseRange: strings.Cut at the first "-", both sides ParseInt, the end is made
   exclusive when it or the start is positive ("0-0" stays the empty range).  The values are
   only looked at when ok. *)
Definition parse_range (l : bytes) : option (Z * Z) :=
  match cut_byte 45%N l with
  | None => None
  | Some (a, b) =>
      match parse_int64 a, parse_int64 b with
      | Some p0, Some p1 => Some (p0, if (0 <? p1) || (0 <? p0) then w64 (p1 + 1) else p1)
      | _, _ => None
      end
  end.

(* ocirequest.RangeString *)
Definition range_string (start end_ : Z) : bytes :=
  let e := w64 (end_ - 1) in
  let e := if e <? 0 then 0 else e in
  fmt_d start ++ 45%N :: fmt_d e.

(* ---------------------------------------------------------------- requests *)

Inductive meth := MGet | MHead | MPost | MPut | MPatch | MDelete.

Definition meth_eqb (a b : meth) : bool :=
  match a, b with
  | MGet, MGet | MHead, MHead | MPost, MPost | MPut, MPut | MPatch, MPatch | MDelete, MDelete => true
  | _, _ => false
  end.

Lemma meth_eqb_eq a b : meth_eqb a b = true <-> a = b.
Proof. destruct a, b; cbn; split; congruence. Qed.

(* ocirequest.Kind *)
Inductive kind :=
  | ReqPing | ReqBlobGet | ReqBlobHead | ReqBlobDelete | ReqBlobStartUpload | ReqBlobUploadBlob
  | ReqBlobMount | ReqBlobUploadInfo | ReqBlobUploadChunk | ReqBlobCompleteUpload
  | ReqManifestGet | ReqManifestHead | ReqManifestPut | ReqManifestDelete
  | ReqTagsList | ReqReferrersList | ReqCatalogList.

(* ocirequest.Request *)
Record rreq := {
  q_kind : kind; q_repo : bytes; q_digest : bytes; q_tag : bytes; q_from : bytes;
  q_upload : bytes; q_n : Z; q_last : bytes
}.

Definition mk_rreq (k : kind) (repo dig tag : bytes) : rreq :=
  {| q_kind := k; q_repo := repo; q_digest := dig; q_tag := tag; q_from := []; q_upload := [];
     q_n := 0; q_last := [] |}.

(* the method Request.construct pairs with each kind *)
Definition kind_method (k : kind) : meth :=
  match k with
  | ReqPing | ReqBlobGet | ReqBlobUploadInfo | ReqManifestGet | ReqTagsList | ReqReferrersList
  | ReqCatalogList => MGet
  | ReqBlobHead | ReqManifestHead => MHead
  | ReqBlobDelete | ReqManifestDelete => MDelete
  | ReqBlobStartUpload | ReqBlobUploadBlob | ReqBlobMount => MPost
  | ReqBlobUploadChunk => MPatch
  | ReqBlobCompleteUpload | ReqManifestPut => MPut
  end.

(* A URL as the client built it.  Interpretation (the actual string) is left to the layer
   that needs it; the client never looks inside except through the oracles below. *)
Inductive url :=
  | UReq (r : rreq)                    (* the path Construct built; scheme and host from the client *)
  | URef (base : url) (ref : bytes)    (* base.Parse(ref) = base.ResolveReference(url.Parse(ref)) *)
  | UId (id : bytes)                   (* url.Parse(id): a caller-supplied upload ID *)
  | UDigest (u : url) (d : bytes).     (* urlWithDigest(u, d) *)

Definition header := list (bytes * bytes).

(* http.Header.Get: the first value stored under the (canonical) key, "" when absent *)
Fixpoint hget (k : bytes) (h : header) : bytes :=
  match h with
  | [] => []
  | (k', v) :: r => if beqb k k' then v else hget k r
  end.

(* Request.Body as NewRequestWithContext leaves it *)
Inductive reqbody :=
  | BNil                                   (* nil reader *)
  | BNoBody                                (* a *bytes.Reader / *strings.Reader of length 0: http.NoBody, GetBody set *)
  | BData (data : bytes) (getbody : bool). (* getbody: the reader was one NewRequest can rewind *)

Record hreq := {
  rq_method : meth; rq_url : url; rq_header : header; rq_body : reqbody; rq_clen : Z
}.

(* http.NewRequestWithContext on a reader holding [data]; [rewindable] = it is a *bytes.Reader,
   *bytes.Buffer or *strings.Reader *)
Definition body_of_reader (present rewindable : bool) (data : bytes) : reqbody :=
  if negb present then BNil
  else if rewindable then (match data with [] => BNoBody | _ => BData data true end)
  else BData data false.

Definition has_getbody (b : reqbody) : bool :=
  match b with BNil => false | BNoBody => true | BData _ g => g end.

(* Request.outgoingLength *)
Definition outgoing_length (r : hreq) : Z :=
  match rq_body r with
  | BNil | BNoBody => 0
  | BData _ _ => if rq_clen r =? 0 then -1 else rq_clen r
  end.

(* ---------------------------------------------------------------- responses *)

(* a response body: the bytes a reader delivers, then io.EOF or (b_fail) a read error such
   as io.ErrUnexpectedEOF *)
Record body := { b_data : bytes; b_fail : bool }.

Record hresp := {
  rs_status : Z;
  rs_header : header;
  rs_clen : Z;          (* Response.ContentLength, -1 = unknown *)
  rs_body : body
}.

(* ---------------------------------------------------------------- the world *)

Record entry := {
  en_req : hreq;
  en_status : option Z;   (* the status of the response; None = the transport returned an error *)
  en_read : Z             (* bytes of the response body read so far *)
}.

Fixpoint add_read (i : nat) (n : Z) (log : list entry) : list entry :=
  match log, i with
  | [], _ => []
  | e :: r, O => {| en_req := en_req e; en_status := en_status e; en_read := en_read e + n |} :: r
  | e :: r, S i' => e :: add_read i' n r
  end.

(* a response in the client's hands: which log entry it answers, resp.Request, the
   response, and the part of the body not read yet *)
Record resp := {
  hr_idx : nat;
  hr_req : hreq;
  hr_rs : hresp;
  hr_rest : bytes
}.


Section Server.
  Variable Srv : Type.
  (* one RoundTrip: None = the transport returned an error *)
  Variable serve : Srv -> hreq -> Srv * option hresp.

  Record world := { w_srv : Srv; w_log : list entry }.

  Definition nreq (w : world) : nat := length (w_log w).

  Definition status (r : resp) : Z := rs_status (hr_rs r).
  Definition rheader (k : bytes) (r : resp) : bytes := hget k (rs_header (hr_rs r)).

  Definition round_trip (w : world) (rq : hreq) : world * option resp :=
    let '(s', a) := serve (w_srv w) rq in
    let i := length (w_log w) in
    match a with
    | None => ({| w_srv := s'; w_log := w_log w ++ [{| en_req := rq; en_status := None; en_read := 0 |}] |}, None)
    | Some rs =>
        ({| w_srv := s'; w_log := w_log w ++ [{| en_req := rq; en_status := Some (rs_status rs); en_read := 0 |}] |},
         Some {| hr_idx := i; hr_req := rq; hr_rs := rs; hr_rest := b_data (rs_body rs) |})
    end.

  (* io.ReadAll(io.LimitReader(resp.Body, limit)): the next [limit] bytes at most; the
     underlying reader's failure is seen only when the data ends before the limit.
     Returns the data, whether the read failed, the response with the data consumed. *)
  Definition read_limited (w : world) (r : resp) (limit : Z) : world * (bytes * bool * resp) :=
    let k := Z.to_nat limit in
    let data := firstn k (hr_rest r) in
    let rest := skipn k (hr_rest r) in
    let failed := b_fail (rs_body (hr_rs r)) && (Z.of_nat (length (hr_rest r)) <? limit) in
    ({| w_srv := w_srv w; w_log := add_read (hr_idx r) (Z.of_nat (length data)) (w_log w) |},
     (data, failed, {| hr_idx := hr_idx r; hr_req := hr_req r; hr_rs := hr_rs r; hr_rest := rest |})).

  (* io.ReadAll(resp.Body) *)
  Definition read_all (w : world) (r : resp) : world * (bytes * bool) :=
    let data := hr_rest r in
    ({| w_srv := w_srv w; w_log := add_read (hr_idx r) (Z.of_nat (length data)) (w_log w) |},
     (data, b_fail (rs_body (hr_rs r)))).

  (* ------------------------------------------------------------ http.Client.do *)

  (* url.Parse succeeds on this string: oracle *)
  Variable url_ok : bytes -> bool.

  Definition location_hdr : bytes := s "Location".

  (* redirectBehavior: None = return this response; Some (method, includeBody) = follow *)
  Definition redirect_behavior (m : meth) (st : Z) (ireq : hreq) : option (meth * bool) :=
    if (st =? 301) || (st =? 302) || (st =? 303) then
      Some (match m with MGet | MHead => m | _ => MGet end, false)
    else if (st =? 307) || (st =? 308) then
      if negb (has_getbody (rq_body ireq)) && negb (outgoing_length ireq =? 0) then None
      else Some (m, true)
    else None.

  Definition max_body_slurp : Z := 2048.

  (* the previous response's body is read a little and closed before the next hop *)
  Definition slurp (w : world) (r : resp) : world :=
    if (rs_clen (hr_rs r) =? -1) || (rs_clen (hr_rs r) <=? max_body_slurp)
    then fst (read_limited w r max_body_slurp) else w.

  Inductive do_result :=
    | DoResp (r : resp)
    | DoErr.                (* *url.Error: transport failure, bad Location, too many redirects *)

  (* The loop of Client.do.  [left] = 10 - len(reqs): defaultCheckRedirect refuses the
     request that would be the eleventh. *)
  Fixpoint do_hops (left : nat) (w : world) (ireq req : hreq) : world * do_result :=
    match left with
    | O => (w, DoErr)
    | S left' =>
        let '(w1, a) := round_trip w req in
        match a with
        | None => (w1, DoErr)
        | Some r =>
            match redirect_behavior (rq_method req) (status r) ireq with
            | None => (w1, DoResp r)
            | Some (m', include_body) =>
                let loc := rheader location_hdr r in
                match loc with
                | [] => (w1, DoResp r)
                | _ =>
                    if negb (url_ok loc) then (w1, DoErr)
                    else
                      let carry := include_body && has_getbody (rq_body ireq) in
                      let req' := {| rq_method := m'; rq_url := URef (rq_url req) loc;
                                     rq_header := rq_header ireq;
                                     rq_body := if carry then rq_body ireq else BNil;
                                     rq_clen := if carry then rq_clen ireq else 0 |} in
                      let w2 := slurp w1 r in
                      match left' with
                      | O => (w2, DoErr)               (* stopped after 10 redirects *)
                      | _ => do_hops left' w2 ireq req'
                      end
                end
            end
        end
    end.

  Definition http_do (w : world) (req : hreq) : world * do_result := do_hops 10 w req req.

End Server.

Arguments w_srv {Srv}. Arguments w_log {Srv}. Arguments Build_world {Srv}.
Arguments nreq {Srv}. Arguments round_trip {Srv}. Arguments read_limited {Srv}.
Arguments read_all {Srv}. Arguments slurp {Srv}. Arguments do_hops {Srv}. Arguments http_do {Srv}.
