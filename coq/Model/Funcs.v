(* Model of ociregistry/func.go: the function-table registry (pointer to Funcs).

   Every method of the Go type has the same shape

       if f != nil && f.<guard>_ != nil { return f.<callee>_(args...) }
       return <zero>, f.newError(ctx, "<name>", <repo argument>)

   and for the three iterator methods the error is delivered through
   [ErrorSeq] (exactly one yield carrying the error).  The model keeps that
   shape *as data*: [guard], [callee], [err_name], [err_repo] say, per method,
   which field is tested, which is called, which name and which argument are
   handed to the error constructor.  Calling a nil function value is the Go
   panic the property is about, so it is an explicit [CPanic] outcome. *)
From Coq Require Import String.
From OCI Require Export Base.Outcome.

Inductive method :=
  | MGetBlob | MGetBlobRange | MGetManifest | MGetTag
  | MResolveBlob | MResolveManifest | MResolveTag
  | MPushBlob | MPushBlobChunked | MPushBlobChunkedResume | MMountBlob | MPushManifest
  | MDeleteBlob | MDeleteManifest | MDeleteTag
  | MRepositories | MTags | MReferrers.

Definition all_methods : list method :=
  [MGetBlob; MGetBlobRange; MGetManifest; MGetTag; MResolveBlob; MResolveManifest; MResolveTag;
   MPushBlob; MPushBlobChunked; MPushBlobChunkedResume; MMountBlob; MPushManifest;
   MDeleteBlob; MDeleteManifest; MDeleteTag; MRepositories; MTags; MReferrers].

Definition method_eqb (a b : method) : bool :=
  match a, b with
  | MGetBlob, MGetBlob | MGetBlobRange, MGetBlobRange | MGetManifest, MGetManifest
  | MGetTag, MGetTag | MResolveBlob, MResolveBlob | MResolveManifest, MResolveManifest
  | MResolveTag, MResolveTag | MPushBlob, MPushBlob | MPushBlobChunked, MPushBlobChunked
  | MPushBlobChunkedResume, MPushBlobChunkedResume | MMountBlob, MMountBlob
  | MPushManifest, MPushManifest | MDeleteBlob, MDeleteBlob | MDeleteManifest, MDeleteManifest
  | MDeleteTag, MDeleteTag | MRepositories, MRepositories | MTags, MTags
  | MReferrers, MReferrers => true
  | _, _ => false
  end.

Lemma method_eqb_eq a b : method_eqb a b = true <-> a = b.
Proof. destruct a, b; cbn; split; congruence. Qed.

Lemma all_methods_complete m : In m all_methods.
Proof. destruct m; cbn; tauto. Qed.

(* Go method name, as passed to newError *)
Definition method_name (m : method) : bytes :=
  match m with
  | MGetBlob => s "GetBlob" | MGetBlobRange => s "GetBlobRange" | MGetManifest => s "GetManifest"
  | MGetTag => s "GetTag" | MResolveBlob => s "ResolveBlob" | MResolveManifest => s "ResolveManifest"
  | MResolveTag => s "ResolveTag" | MPushBlob => s "PushBlob" | MPushBlobChunked => s "PushBlobChunked"
  | MPushBlobChunkedResume => s "PushBlobChunkedResume" | MMountBlob => s "MountBlob"
  | MPushManifest => s "PushManifest" | MDeleteBlob => s "DeleteBlob"
  | MDeleteManifest => s "DeleteManifest" | MDeleteTag => s "DeleteTag"
  | MRepositories => s "Repositories" | MTags => s "Tags" | MReferrers => s "Referrers"
  end.

(* ---- the per-method data read off func.go ---- *)

(* which field the method tests for nil *)
Definition guard (m : method) : method := m.
(* which field the method calls *)
Definition callee (m : method) : method := m.
(* which method name it gives to newError *)
Definition err_name (m : method) : bytes := method_name m.
(* index (in the argument list after ctx) of the argument given to newError as the
   repository; None = the literal "" *)
Definition err_repo_arg (m : method) : option nat :=
  match m with
  | MRepositories => None
  | MMountBlob => Some 1%nat          (* toRepo *)
  | _ => Some 0%nat
  end.
Definition is_iter (m : method) : bool :=
  match m with MRepositories | MTags | MReferrers => true | _ => false end.

(* ---- the table ---- *)

Record table := {
  t_nil : bool;                 (* the nil Funcs pointer receiver *)
  t_ctor : bool;                (* NewError field set *)
  t_set : method -> bool        (* field m_ set *)
}.

Inductive outcome :=
  | CPanic
  | CDelegated (field : method) (args : list bytes)          (* field called with these arguments; its results returned *)
  | CCtorError (name repo : bytes) (yields : N)              (* NewError(ctx, name, repo) result returned *)
  | CUnsupported (name : bytes) (yields : N).                (* fmt.Errorf("%s: %w", name, ErrUnsupported) *)
(* [yields]: 0 for a method returning (value, error) directly; for an iterator
   method, the number of yield calls made when the consumer always says "go on"
   (ErrorSeq makes exactly one). *)

Definition field_set (t : table) (m : method) : bool := negb (t_nil t) && t_set t m.

Definition new_error (t : table) (name repo : bytes) (yields : N) : outcome :=
  if negb (t_nil t) && t_ctor t then CCtorError name repo yields else CUnsupported name yields.

Definition call (t : table) (m : method) (args : list bytes) : outcome :=
  if field_set t (guard m) then
    (if field_set t (callee m) then CDelegated (callee m) args else CPanic)
  else
    new_error t (err_name m)
      (match err_repo_arg m with Some i => nth i args [] | None => [] end)
      (if is_iter m then 1 else 0).

(* the argument the method hands to the error constructor as the repository *)
Definition repo_arg (m : method) (args : list bytes) : bytes :=
  match m with
  | MRepositories => []
  | MMountBlob => nth 1 args []
  | _ => nth 0 args []
  end.

