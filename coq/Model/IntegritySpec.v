(* C01, content integrity: the vocabulary of the histories the property quantifies over and
   the property's specification written as a naive check over a log of (operation, projected
   observation) pairs.

   The specification ([hist_ok]) never looks at a registry state: it only searches the part of
   the log that precedes an entry.  It says

     - a push whose declared digest or size disagrees with its content (PushBlob, Commit,
       manifest PUT by digest) fails;
     - a consistent blob push into a valid repository (PushBlob, Commit on an undisturbed
       writer) is accepted and described as declared;
     - a read either fails (or panics: that is C06 / C18's concern) or ends cleanly, and a
       read that ends cleanly (GetBlob, GetManifest, GetTag) returns bytes whose hash is
       the descriptor's digest, whose length is the descriptor's size, under the requested
       digest, and those bytes are the content of an earlier accepted push, and an earlier
       accepted operation put that digest into that repository (so a rejected push left
       nothing retrievable);
     - a successful range read returns the slice [o0, o1') of such a content, described by
       the digest and the size of the whole content.

   [sha] is the harness's own SHA-256 table in case files and a Section variable in the
   theorems. *)
From Coq Require Import String.
From OCI Require Export Base.Outcome Model.Iface Model.Mem.

Local Open Scope Z_scope.

(* the operations of ociregistry.Interface plus the one push path that exists only on the
   wire: a manifest PUT addressed by digest (ociserver.handleManifestPut compares the digest
   in the URL with the digest of the body) *)
Inductive xop :=
  | XO (o : op)
  | XPutManifest (r d content media : bytes).

(* what the property can tell about a result *)
Inductive pobs :=
  | PFail                                          (* an error, whatever its code *)
  | PPanic
  | PRead (dg : bytes) (sz : Z) (data : bytes)     (* a reader drained to a clean EOF *)
  | PDesc (dg : bytes) (sz : Z)
  | PWriter (w : N)
  | PN (n : Z)
  | POk.                                           (* any other success *)

Definition pobs_eqb (a b : pobs) : bool :=
  match a, b with
  | PFail, PFail | PPanic, PPanic | POk, POk => true
  | PRead d1 s1 x1, PRead d2 s2 x2 => beqb d1 d2 && (s1 =? s2) && beqb x1 x2
  | PDesc d1 s1, PDesc d2 s2 => beqb d1 d2 && (s1 =? s2)
  | PWriter a, PWriter b => N.eqb a b
  | PN a, PN b => a =? b
  | _, _ => false
  end.

Lemma pobs_eqb_eq a b : pobs_eqb a b = true <-> a = b.
Proof.
  destruct a, b; cbn; split; try congruence; try reflexivity; intros H.
  - apply andb_true_iff in H as [H H3]. apply andb_true_iff in H as [H1 H2].
    apply beqb_eq in H1, H3. apply Z.eqb_eq in H2. now subst.
  - injection H as -> -> ->. now rewrite !beqb_refl, Z.eqb_refl.
  - apply andb_true_iff in H as [H1 H2]. apply beqb_eq in H1. apply Z.eqb_eq in H2. now subst.
  - injection H as -> ->. now rewrite beqb_refl, Z.eqb_refl.
  - apply N.eqb_eq in H. now subst.
  - injection H as ->. apply N.eqb_refl.
  - apply Z.eqb_eq in H. now subst.
  - injection H as ->. apply Z.eqb_refl.
Qed.

Definition proj (r : result) : pobs :=
  match r with
  | Ok (RRead de data) => PRead (d_digest de) (d_size de) data
  | Ok (RDesc de) => PDesc (d_digest de) (d_size de)
  | Ok (RWriter w) => PWriter w
  | Ok (RN n) => PN n
  | Ok _ => POk
  | Err _ => PFail
  | Panic | OutOfFuel => PPanic
  end.

Definition entry : Type := xop * pobs.

Definition succ (p : pobs) : bool := match p with PFail | PPanic => false | _ => true end.

Definition is_nil (a : bytes) : bool := match a with [] => true | _ => false end.

(* Go's o1 < 0 || o1 > len  =>  len *)
Definition clamp (n o1 : Z) : Z := if (o1 <? 0) || (o1 >? n) then n else o1.

Section Spec.
  Variable sha : bytes -> bytes.
  Variable vdig : bytes -> bool.      (* go-digest Validate *)
  Variable vrepo : bytes -> bool.     (* ociref.IsValidRepository *)

  (* In all of the following [past] is the log so far, most recent entry first. *)

  (* the bytes handed to writer w by the Write calls that succeeded, in order *)
  Fixpoint written (past : list entry) (w : N) : bytes :=
    match past with
    | [] => []
    | (XO (WWrite w' data), p) :: rest =>
        if N.eqb w' w && succ p then written rest w ++ data else written rest w
    | _ :: rest => written rest w
    end.

  (* every content an accepted push carried *)
  Fixpoint contents (past : list entry) : list bytes :=
    match past with
    | [] => []
    | (x, p) :: rest =>
        (if succ p then
           match x with
           | XO (PushBlob _ _ c) | XO (PushManifest _ _ c _) | XPutManifest _ _ c _ => [c]
           | XO (WCommit w _) => [written rest w]
           | _ => []
           end
         else []) ++ contents rest
    end.

  (* an accepted open on repository r returned writer w *)
  Definition writer_repo (past : list entry) (w : N) (r : bytes) : bool :=
    existsb (fun e : entry =>
               match e with
               | (XO (PushBlobChunked r' _), PWriter w') | (XO (PushBlobChunkedResume r' _ _ _), PWriter w') =>
                   N.eqb w' w && beqb r' r
               | _ => false
               end) past.

  (* an accepted operation put a blob with digest d into repository r *)
  Fixpoint blob_targeted (past : list entry) (r d : bytes) : bool :=
    match past with
    | [] => false
    | (x, p) :: rest =>
        (succ p && match x with
                   | XO (PushBlob r' de _) => beqb r' r && beqb (d_digest de) d
                   | XO (MountBlob _ to d') => beqb to r && beqb d' d
                   | XO (WCommit w d') => beqb d' d && writer_repo rest w r
                   | _ => false
                   end) || blob_targeted rest r d
    end.

  (* an accepted manifest push into repository r carried content c *)
  Definition man_pushed (past : list entry) (r c : bytes) : bool :=
    existsb (fun e : entry =>
               succ (snd e) && match fst e with
                               | XO (PushManifest r' _ c' _) | XPutManifest r' _ c' _ => beqb r' r && beqb c' c
                               | _ => false
                               end) past.

  (* an accepted manifest push into repository r named tag t with a content of digest d *)
  Definition tag_targeted (past : list entry) (r t d : bytes) : bool :=
    existsb (fun e : entry =>
               succ (snd e) && match fst e with
                               | XO (PushManifest r' t' c' _) => beqb r' r && beqb t' t && beqb (sha c') d
                               | _ => false
                               end) past.

  (* content c may be served as blob d of repository r *)
  Definition blob_just (past : list entry) (r d c : bytes) : bool :=
    beqb (sha c) d && mem_bytes c (contents past) && blob_targeted past r d.

  (* writer w came from PushBlobChunked and nothing but successful writes happened to it *)
  Definition fresh (past : list entry) (w : N) : bool :=
    existsb (fun e : entry => match e with
                              | (XO (PushBlobChunked _ _), PWriter w') => N.eqb w' w
                              | _ => false
                              end) past
    && forallb (fun e : entry =>
                  match e with
                  | (XO (PushBlobChunkedResume _ _ _ _), PWriter w') => negb (N.eqb w' w)
                  | (XO (WWrite w' _), p) => negb (N.eqb w' w) || succ p
                  | (XO (WCommit w' _), _) | (XO (WCancel w'), _) => negb (N.eqb w' w)
                  | _ => true
                  end) past.

  Definition only_fail (p : pobs) : bool := match p with PFail => true | _ => false end.
  Definition desc_is (p : pobs) (d : bytes) (n : Z) : bool :=
    match p with PDesc dg sz => beqb dg d && (sz =? n) | _ => false end.

  Definition check (past : list entry) (x : xop) (p : pobs) : bool :=
    match x with
    | XO (GetBlob r d) =>
        match p with
        | PRead dg sz data => beqb dg d && (sz =? blen data) && blob_just past r d data
        | PFail | PPanic => true
        | _ => false
        end
    | XO (GetBlobRange r d o0 o1) =>
        match p with
        | PRead dg sz data =>
            beqb dg d &&
            existsb (fun c => (sz =? blen c) && blob_just past r d c &&
                              let e := clamp (blen c) o1 in
                              (0 <=? o0) && (o0 <=? e) && beqb data (slice c o0 e))
                    (contents past)
        | PFail | PPanic => true
        | _ => false
        end
    | XO (GetManifest r d) =>
        match p with
        | PRead dg sz data => beqb dg d && beqb (sha data) d && (sz =? blen data) && man_pushed past r data
        | PFail | PPanic => true
        | _ => false
        end
    | XO (GetTag r t) =>
        match p with
        | PRead dg sz data =>
            beqb (sha data) dg && (sz =? blen data) && man_pushed past r data && tag_targeted past r t dg
        | PFail | PPanic => true
        | _ => false
        end
    | XO (PushBlob r de c) =>
        if beqb (sha c) (d_digest de) && (d_size de =? blen c) then
          if vrepo r && vdig (d_digest de) && negb (is_nil (d_media de))
          then desc_is p (d_digest de) (d_size de)
          else only_fail p || desc_is p (d_digest de) (d_size de)
        else only_fail p
    | XO (WCommit w d) =>
        let c := written past w in
        if beqb (sha c) d then
          if fresh past w then desc_is p d (blen c)
          else only_fail p || desc_is p d (blen c)
        else only_fail p
    | XPutManifest r d c m =>
        if beqb (sha c) d then only_fail p || desc_is p d (blen c) else only_fail p
    | XO (PushManifest r t c m) =>
        match p with
        | PDesc dg _ => beqb dg (sha c)
        | PFail => true
        | _ => false
        end
    | _ => true
    end.

  Fixpoint hist_ok_from (past : list entry) (rest : list entry) : bool :=
    match rest with
    | [] => true
    | (x, p) :: rest' => check past x p && hist_ok_from ((x, p) :: past) rest'
    end.

  Definition hist_ok (l : list entry) : bool := hist_ok_from [] l.
End Spec.

(* ---------- the model the histories are compared with ---------- *)

Section XStep.
  Variable hash : bytes -> bytes.
  Variable valid_digest : bytes -> bool.
  Variable valid_repo : bytes -> bool.
  Variable valid_tag : bytes -> bool.
  Variable decode_image : bytes -> option image_manifest.
  Variable decode_index : bytes -> option index_manifest.
  Variable cfg : config.
  (* ociserver.subjectFromManifest(contentType, data) returns no error *)
  Variable subject_json_ok : bytes -> bytes -> bool.

  Local Notation step := (step hash valid_digest valid_repo valid_tag decode_image decode_index cfg).

  (* ociserver.handleManifestPut for a request addressed by digest, over ocimem:
       (ocirequest.parse has validated the digest in the URL)
       mediaType := Content-Type, "application/octet-stream" when absent
       dig := digest.FromBytes(data); if rreq.Digest != dig { return ErrDigestInvalid }
       subjectFromManifest(Content-Type, data)     -- error: "invalid manifest JSON"
       backend.PushManifest(repo, "", data, mediaType) *)
  Definition xstep (st : state) (x : xop) : state * result :=
    match x with
    | XO o => step st o
    | XPutManifest r d content media =>
        if negb (valid_digest d) then (st, Err (E DIGEST_INVALID (s "badly formed digest")))
        else if negb (beqb d (hash content)) then (st, Err (E DIGEST_INVALID (s "digest invalid")))
        else if negb (subject_json_ok media content) then (st, Err (e_plain (s "invalid manifest JSON")))
        else step st (PushManifest r [] content (match media with [] => MT_OCTET | _ => media end))
    end.

  (* run a history, building the log the specification reads (most recent first) *)
  Fixpoint xrun (st : state) (past : list entry) (h : list xop) : state * list entry :=
    match h with
    | [] => (st, past)
    | x :: h' => let '(st1, r) := xstep st x in xrun st1 ((x, proj r) :: past) h'
    end.

  Definition xlog (h : list xop) : list entry := rev (snd (xrun init [] h)).

  (* the results alone, in order *)
  Fixpoint xresults (st : state) (h : list xop) : list result :=
    match h with
    | [] => []
    | x :: h' => let '(st1, r) := xstep st x in r :: xresults st1 h'
    end.

  Lemma xrun_results h : forall st past,
    snd (xrun st past h) = rev (combine h (map proj (xresults st h))) ++ past.
  Proof.
    induction h as [|x h IH]; intros st past; cbn; [reflexivity|].
    destruct (xstep st x) as [st1 r]. cbn. rewrite IH. now rewrite <- app_assoc.
  Qed.

  Lemma xlog_results h : xlog h = combine h (map proj (xresults init h)).
  Proof. unfold xlog. now rewrite xrun_results, app_nil_r, rev_involutive. Qed.
End XStep.
