(* Model of the read path of ociclient and of the blob GET handler of ociserver, function by
   function:

     ociclient/client.go   descriptorFromResponse        descriptor_from_response
                           newBlobReader[Unverified]     new_blob_reader (panic site:
                                                         Digest.Algorithm().Hash())
                           blobReader.Read               br_read
     io.ReadAll over a BlobReader                        drain
     ociclient/reader.go   client.read                   client_read
                           client.GetBlobRange           client_get_blob_range
     ociserver/reader.go   handleBlobGet                 server_blob_get
     ocimem/reader.go      GetBlobRange's arithmetic     range_of_blob

   The body of an HTTP response is a script: the sequence of results (bytes, error) the
   underlying reader's Read calls deliver, so that every way of cutting a body into reads,
   with the final io.EOF delivered together with the last bytes or on its own, is an input.

   The Range / Content-Range codecs are those of Model/RangeCodec.v (C04).

   The model follows the code after two repairs: descriptorFromResponse validates the
   caller's digest before falling back to it (C18), and the unverified reader counts bytes
   that arrive together with io.EOF against the size (C01, ociclient-range-reader-overlong-eof;
   the behaviour before is Model/BlobReaderLegacy.v). *)
From Coq Require Import String.
From OCI Require Export Base.Outcome Model.Iface.
From OCI Require Import Model.RangeCodec.

Local Open Scope Z_scope.

Definition OCTET : bytes := s "application/octet-stream".

(* ---------- digest algorithms (go-digest) ---------- *)

(* Digest.Algorithm(): the text before the first ':'; None = the sepIndex panic *)
Definition alg_of (d : bytes) : option bytes :=
  match cut_byte 58%N d with
  | Some (a, _) => Some a
  | None => None
  end.

(* Algorithm.Available(): sha256, sha384, sha512 are registered *)
Definition alg_available (a : bytes) : bool :=
  beqb a (s "sha256") || beqb a (s "sha384") || beqb a (s "sha512").

(* desc.Digest.Algorithm().Hash() does not panic *)
Definition alg_ok (d : bytes) : bool :=
  match alg_of d with
  | Some a => alg_available a
  | None => false
  end.

(* ---------- the response as the client sees it ---------- *)

Record response := {
  rs_status : Z;
  rs_ctype : bytes;        (* Content-Type; [] = absent *)
  rs_clen : Z;             (* resp.ContentLength; -1 = unknown *)
  rs_crange : bytes;       (* Content-Range *)
  rs_digest : bytes        (* Docker-Content-Digest *)
}.

(* the text after the last occurrence of byte c: s[strings.LastIndex(s, c)+1:] *)
Fixpoint after_last (c : N) (a : bytes) : option bytes :=
  match a with
  | [] => None
  | d :: a' =>
      match after_last c a' with
      | Some r => Some r
      | None => if (d =? c)%N then Some a' else None
      end
  end.

Section Reader.
  (* ociref.IsValidDigest *)
  Variable valid_digest : bytes -> bool.
  (* digest.NewDigest(alg, h) after h has been fed the content: algorithm name, content *)
  Variable hashd : bytes -> bytes -> bytes.

  (* digest.FromBytes: the canonical algorithm *)
  Definition canon_hash (c : bytes) : bytes := hashd (s "sha256") c.

  (* descriptorFromResponse(resp, knownDigest, require); None = any of its errors *)
  Definition descriptor_from_response (resp : response) (known : bytes) (req_size req_digest : bool) : option desc :=
    let ctype := match rs_ctype resp with [] => OCTET | c => c end in
    let size :=
      if req_size then
        if rs_status resp =? 206 then
          match rs_crange resp with
          | [] => None                                   (* no Content-Range in partial content response *)
          | cr => match after_last 47%N cr with
                  | None => None                         (* malformed Content-Range *)
                  | Some t => parse_int t
                  end
          end
        else if rs_clen resp <? 0 then None              (* unknown content length *)
        else Some (rs_clen resp)
      else Some 0 in
    match size with
    | None => None
    | Some sz =>
        let dg := match rs_digest resp with
                  | [] => match known with
                          | [] => Some known
                          | _ => if valid_digest known then Some known else None   (* bad digest *)
                          end
                  | d => if valid_digest d then Some d else None    (* bad digest found in response *)
                  end in
        match dg with
        | None => None
        | Some d =>
            if req_digest && match d with [] => true | _ => false end then None
            else Some {| d_media := ctype; d_digest := d; d_size := sz; d_artifact := [] |}
        end
    end.

  (* ---------- blobReader ---------- *)

  Inductive rerr := RNil | REOF | RFail.                 (* err of the underlying Read *)
  Definition script := list (bytes * rerr).

  Inductive rres :=
    | RROk                 (* nil *)
    | RREOF                (* io.EOF: the clean end of the stream *)
    | RRSize               (* ... ErrSizeInvalid *)
    | RRDigest             (* digest mismatch when reading blob *)
    | RRUnder.             (* the underlying reader's own error, passed on *)

  Record br := { br_n : Z; br_acc : bytes; br_desc : desc; br_verify : bool }.

  (* newBlobReader: digester: desc.Digest.Algorithm().Hash() *)
  Definition new_blob_reader (de : desc) (verify : bool) : R err br :=
    if alg_ok (d_digest de) then Ok {| br_n := 0; br_acc := []; br_desc := de; br_verify := verify |}
    else Panic.

  Definition br_alg (r : br) : bytes := match alg_of (d_digest (br_desc r)) with Some a => a | None => [] end.

  (* func (r *blobReader) Read(buf): the underlying Read delivered (chunk, e) *)
  Definition br_read (r : br) (chunk : bytes) (e : rerr) : br * rres :=
    let r' := {| br_n := br_n r + blen chunk; br_acc := br_acc r ++ chunk;
                 br_desc := br_desc r; br_verify := br_verify r |} in
    let size := d_size (br_desc r) in
    match e with
    | RNil => if br_n r' >? size then (r', RRSize) else (r', RROk)
    | RFail => (r', RRUnder)
    | REOF =>
        if negb (br_verify r) then (if br_n r' >? size then (r', RRSize) else (r', RREOF))
        else if negb (br_n r' =? size) then (r', RRSize)
        else if negb (beqb (hashd (br_alg r) (br_acc r')) (d_digest (br_desc r))) then (r', RRDigest)
        else (r', RREOF)
    end.

  (* io.ReadAll(blobReader): the bytes relayed and how the stream ended.  A script that ends
     without an error result is a reader that never returns again. *)
  Inductive drained :=
    | DClean (data : bytes)
    | DErr (data : bytes) (e : rres)
    | DHang (data : bytes).

  Fixpoint drain (r : br) (sc : script) (data : bytes) : drained :=
    match sc with
    | [] => DHang data
    | (chunk, e) :: rest =>
        let '(r', res) := br_read r chunk e in
        match res with
        | RROk => drain r' rest (data ++ chunk)
        | RREOF => DClean (data ++ chunk)
        | other => DErr (data ++ chunk) other
        end
    end.

  (* the bytes of a script up to its first error result, and that result *)
  Fixpoint flatten (sc : script) : bytes * rerr :=
    match sc with
    | [] => ([], RNil)
    | (chunk, RNil) :: rest => let '(d, e) := flatten rest in (chunk ++ d, e)
    | (chunk, e) :: _ => (chunk, e)
    end.

  (* ---------- client.read: GetBlob, GetManifest, GetTag ---------- *)

  Inductive rkind := KBlobGet | KManifestGet.           (* ocirequest kind of the request *)

  Definition IN_MEM_THRESHOLD : Z := 131072.

  Definition e_client (what : bytes) : err := E ENone what.

  (* [known]: rreq.Digest ("" for a tag); [resp]/[body]: the answer to the GET;
     [head]: the answer to the HEAD request of the large-manifest fallback, None = it failed *)
  Definition client_read (kind : rkind) (known : bytes) (resp : response) (body : script)
             (head : option response) : R err (desc * drained) :=
    if negb (rs_status resp =? 200) then Err (e_client (s "unexpected status"))
    else
      match descriptor_from_response resp known true false with
      | None => Err (e_client (s "invalid descriptor in response"))
      | Some de =>
          match d_digest de with
          | [] =>
              match kind with
              | KBlobGet => Err (e_client (s "internal error: no digest available for non-tag request"))
              | KManifestGet =>
                  if d_size de <=? IN_MEM_THRESHOLD then
                    (* io.ReadAll(io.LimitReader(resp.Body, desc.Size+1)) *)
                    let '(data, e) := flatten body in
                    match e with
                    | RFail => if blen data <=? d_size de then Err (e_client (s "failed to read body to determine digest"))
                               else Err (e_client (s "body size mismatch or read error"))
                    | _ =>
                        if negb (blen data =? d_size de) then Err (e_client (s "body size mismatch"))
                        else
                          let de' := {| d_media := d_media de; d_digest := canon_hash data;
                                        d_size := d_size de; d_artifact := [] |} in
                          (* resp.Body = io.NopCloser(bytes.NewReader(data)) *)
                          do r <- new_blob_reader de' true;
                          Ok (de', drain r (match data with [] => [([], REOF)] | _ => [(data, RNil); ([], REOF)] end) [])
                    end
                  else
                    match head with
                    | None => Err (e_client (s "HEAD failed"))
                    | Some hr =>
                        if negb (rs_status hr =? 200) then Err (e_client (s "unexpected status"))
                        else match descriptor_from_response hr known true true with
                             | None => Err (e_client (s "invalid descriptor in HEAD response"))
                             | Some de' => do r <- new_blob_reader de' true; Ok (de', drain r body [])
                             end
                    end
              end
          | _ => do r <- new_blob_reader de true; Ok (de, drain r body [])
          end
      end.

  (* ---------- client.GetBlobRange ---------- *)

  Definition client_get_blob_range (o0 o1 : Z) (known : bytes) (resp : response) (body : script)
    : R err (desc * drained) :=
    if (o0 =? 0) && (o1 <? 0) then client_read KBlobGet known resp body None
    else if negb ((rs_status resp =? 200) || (rs_status resp =? 206)) then Err (e_client (s "unexpected status"))
    else
      match descriptor_from_response resp known true false with
      | None => Err (e_client (s "invalid descriptor in response"))
      | Some de => do r <- new_blob_reader de false; Ok (de, drain r body [])
      end.

  (* ---------- ociserver.handleBlobGet (no LocationsForDescriptor) ---------- *)

  Inductive sresp :=
    | S416                                  (* withHTTPCode(416, ...) *)
    | SBackend (e : err)                    (* the backend's error, passed to the error writer *)
    | SPanic
    | SResp (r : response) (body : bytes).

  (* [hdr] = req.Header.Get("Range"); [rd] = rreq.Digest; the two backend calls *)
  Definition server_blob_get (hdr rd : bytes)
             (get : R err (desc * bytes)) (getrange : Z -> Z -> R err (desc * bytes)) : sresp :=
    match parse_http_range hdr with
    | HRInvalid | HREndRelative => S416
    | HROk [] =>
        match get with
        | Ok (de, data) =>
            SResp {| rs_status := 200; rs_ctype := d_media de; rs_clen := d_size de; rs_crange := []; rs_digest := rd |} data
        | Err e => SBackend e
        | _ => SPanic
        end
    | HROk [rng] =>
        match getrange (hr_start rng) (hr_end rng) with
        | Ok (de, data) =>
            let en := if (hr_end rng =? -1) || (hr_end rng >? d_size de) then d_size de else hr_end rng in
            if hr_start rng >? d_size de then S416
            else if en <? hr_start rng then S416
            else SResp {| rs_status := 206; rs_ctype := d_media de; rs_clen := en - hr_start rng;
                          rs_crange := content_range_header (hr_start rng) en (d_size de);
                          rs_digest := rd |} data
        | Err e => SBackend e
        | _ => SPanic
        end
    | HROk _ => S416
    end.

  (* ---------- ocimem.GetBlobRange on one stored blob ---------- *)

  Definition range_of_blob (de : desc) (data : bytes) (o0 o1 : Z) : R err (desc * bytes) :=
    let n := blen data in
    let o1' := if (o1 <? 0) || (o1 >? n) then n else o1 in
    if (o0 <? 0) || (o0 >? o1') then Err (E ENone (s "invalid range"))
    else Ok (de, firstn (Z.to_nat (o1' - o0)) (skipn (Z.to_nat o0) data)).

  (* ---------- one HTTP hop in front of a backend, for the two blob reads ---------- *)

  (* the body travels as one piece followed by io.EOF; Proofs/BlobReader.v shows that the
     outcome does not depend on how it is cut *)
  Definition whole (body : bytes) : script := [(body, REOF)].

  Definition finish (x : R err (desc * drained)) : R err (desc * bytes) :=
    match x with
    | Ok (de, DClean data) => Ok (de, data)
    | Ok (_, _) => Err (e_client (s "read error"))
    | Err e => Err e
    | Panic => Panic
    | OutOfFuel => OutOfFuel
    end.

  Definition sresp_err (r : sresp) : R err (desc * bytes) :=
    match r with
    | S416 => Err (E RANGE_INVALID (s "416"))
    | SBackend e => Err e
    | _ => Panic
    end.

  Definition http_get_blob (d : bytes) (get : R err (desc * bytes)) : R err (desc * bytes) :=
    match server_blob_get [] d get (fun _ _ => get) with
    | SResp resp body => finish (client_read KBlobGet d resp (whole body) None)
    | other => sresp_err other
    end.

  Definition http_get_blob_range (d : bytes) (o0 o1 : Z)
             (get : R err (desc * bytes)) (getrange : Z -> Z -> R err (desc * bytes)) : R err (desc * bytes) :=
    if (o0 =? 0) && (o1 <? 0) then http_get_blob d get
    else
      match server_blob_get (client_range_header o0 o1) d get getrange with
      | SResp resp body => finish (client_get_blob_range o0 o1 d resp (whole body))
      | other => sresp_err other
      end.

  (* handleManifestGet + client.read: Docker-Content-Digest is the backend descriptor's digest *)
  Definition http_get_manifest (known : bytes) (get : R err (desc * bytes)) : R err (desc * bytes) :=
    match get with
    | Ok (de, data) =>
        finish (client_read KManifestGet known
                  {| rs_status := 200; rs_ctype := d_media de; rs_clen := d_size de; rs_crange := [];
                     rs_digest := d_digest de |} (whole data) None)
    | other => other
    end.
End Reader.
