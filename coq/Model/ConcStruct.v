(* Vocabulary of the lock-structure table of ociregistry/ocimem (C08).

   The extractor (harness/extract, go/packages) writes Generated/MemSections.v in this
   vocabulary on every run; Model/Conc.v declares, section by section, the lock structure
   of the sectioned model the linearizability theorems are about; [table_eq] compares the
   two.  The checks below (lockset discipline, lock order, atomic regions) are decidable
   functions of a table, so they are evaluated both on the declared structure (theorems)
   and on the extracted table of whatever tree the harness runs on (obs_ok).

   A table maps an operation name to the list of its intervals in source order.  An
   interval is a maximal stretch of the method (callees and the commit callback inlined)
   during which the set of held mutexes is constant; it records the state classes read /
   written in it.  Interior intervals without any lock are kept even when nothing is
   accessed in them: they are the points where other threads can run. *)
From Coq Require Import String.
From OCI Require Export Base.Outcome.

Inductive lock := RegMu | BufMu | CommitMu | LOther (name : bytes).
Inductive class := CReg | CBuf | COther (name : bytes).
Inductive acc := Rd (c : class) | Wr (c : class).
Record interval := seg { i_locks : list lock; i_acc : list acc }.
Definition stable := list (bytes * list interval).

Definition lock_eqb (a b : lock) : bool :=
  match a, b with
  | RegMu, RegMu | BufMu, BufMu | CommitMu, CommitMu => true
  | LOther x, LOther y => beqb x y
  | _, _ => false
  end.
Definition class_eqb (a b : class) : bool :=
  match a, b with
  | CReg, CReg | CBuf, CBuf => true
  | COther x, COther y => beqb x y
  | _, _ => false
  end.
Definition acc_eqb (a b : acc) : bool :=
  match a, b with
  | Rd x, Rd y | Wr x, Wr y => class_eqb x y
  | _, _ => false
  end.
Definition acc_class (a : acc) : class := match a with Rd c | Wr c => c end.

Definition mem_lock (l : lock) (ls : list lock) : bool := existsb (lock_eqb l) ls.
Definition mem_acc (a : acc) (l : list acc) : bool := existsb (acc_eqb a) l.
(* Both sides list locks and accesses in the extractor's canonical order (sorted by Go name:
   Buffer.commitMu, Buffer.mu, Registry.mu; R before W, Buffer before Registry), so tables
   are compared as lists.  The declared structure contains no LOther / COther, hence an
   interval the extractor could not classify equals nothing in it. *)
Definition locks_eqb (a b : list lock) : bool := list_eqb lock_eqb a b.
Definition accs_eqb (a b : list acc) : bool := list_eqb acc_eqb a b.
Definition interval_eqb (a b : interval) : bool :=
  locks_eqb (i_locks a) (i_locks b) && accs_eqb (i_acc a) (i_acc b).

Definition entry_eqb (a b : bytes * list interval) : bool :=
  beqb (fst a) (fst b) && list_eqb interval_eqb (snd a) (snd b).
(* same operations in the same (sorted) order, same intervals *)
Definition table_eq (a b : stable) : bool := list_eqb entry_eqb a b.

(* ---------------------------------------------------------------- checks on a table *)

(* the mutex that guards a state class *)
Definition guard (c : class) : lock :=
  match c with CReg => RegMu | CBuf => BufMu | COther n => LOther n end.

(* lockset discipline: every access to a class happens with the class's mutex held *)
Definition interval_lockset_ok (i : interval) : bool :=
  forallb (fun a => mem_lock (guard (acc_class a)) (i_locks i)) (i_acc i).
Definition lockset_ok (t : stable) : bool :=
  forallb (fun e => forallb interval_lockset_ok (snd e)) t.

(* lock order: (a, b) when b is acquired while a is held, read off consecutive intervals *)
Fixpoint order_edges (is : list interval) : list (lock * lock) :=
  match is with
  | i :: ((j :: _) as rest) =>
      let kept := filter (fun l => mem_lock l (i_locks j)) (i_locks i) in
      let new := filter (fun l => negb (mem_lock l (i_locks i))) (i_locks j) in
      list_prod kept new ++ order_edges rest
  | _ => []
  end.
Definition all_edges (t : stable) : list (lock * lock) := flat_map (fun e => order_edges (snd e)) t.

(* rank of a lock in the one permitted order: Buffer.commitMu, then Registry.mu, then Buffer.mu *)
Definition lock_rank (l : lock) : option N :=
  match l with CommitMu => Some 0 | RegMu => Some 1 | BufMu => Some 2 | LOther _ => None end.
Definition edge_ok (e : lock * lock) : bool :=
  match lock_rank (fst e), lock_rank (snd e) with
  | Some a, Some b => N.ltb a b
  | _, _ => false
  end.
Definition lock_order_ok (t : stable) : bool := forallb edge_ok (all_edges t).

(* atomic regions: maximal runs of intervals holding at least one state-guarding mutex
   (Registry.mu or Buffer.mu).  Buffer.commitMu guards no state; it only excludes other
   Commit calls on the same buffer. *)
Definition data_locked (i : interval) : bool := mem_lock RegMu (i_locks i) || mem_lock BufMu (i_locks i).
Fixpoint regions_from (cur : list interval) (is : list interval) : list (list interval) :=
  match is with
  | [] => match cur with [] => [] | _ => [rev cur] end
  | i :: rest =>
      if data_locked i then regions_from (i :: cur) rest
      else
        (* an unlocked interval that touches shared state is a region of its own *)
        let here := match i_acc i with [] => [] | _ => [[i]] end in
        match cur with
        | [] => here ++ regions_from [] rest
        | _ => rev cur :: here ++ regions_from [] rest
        end
  end.
Definition regions (is : list interval) : list (list interval) := regions_from [] is.

(* the shape the linearizability argument needs: an operation is a single atomic region,
   except Buffer.Commit, which is the optimistic chain check / callback / record-failure
   with Buffer.commitMu held from the first region to the last *)
Definition holds_commit (r : list interval) : bool := forallb (fun i => mem_lock CommitMu (i_locks i)) r.
Definition region_writes (c : class) (r : list interval) : bool :=
  existsb (fun i => mem_acc (Wr c) (i_acc i)) r.
Definition shape_ok (e : bytes * list interval) : bool :=
  let rs := regions (snd e) in
  if beqb (fst e) (s "Buffer.Commit") then
    match rs with
    | [a; b; c] =>
        holds_commit a && holds_commit b && holds_commit c
        && forallb (fun i => mem_lock CommitMu (i_locks i)) (snd e)
        && negb (region_writes CReg a) && negb (region_writes CReg c)
    | _ => false
    end
  else (length rs <=? 1)%nat.
Definition shapes_ok (t : stable) : bool := forallb shape_ok t.

(* everything the property needs from the code's lock structure, as one decidable check *)
Definition structure_ok (t : stable) : bool := lockset_ok t && lock_order_ok t && shapes_ok t.

(* names of the entries that differ between two tables (diagnostics; drives the directed search) *)
Fixpoint diff_names (a b : stable) : list bytes :=
  match a with
  | [] => map fst b
  | e :: a' =>
      match find (fun f => beqb (fst e) (fst f)) b with
      | Some f => if entry_eqb e f then [] else [fst e]
      | None => [fst e]
      end ++ diff_names a' (filter (fun f => negb (beqb (fst e) (fst f))) b)
  end.
