(* Specification checker for the extended upload scripts of Model/UploadX.v.  Like
   Model/UploadSpec.v it knows nothing about chunks, buffers, Content-Range or HTTP beyond
   "a call may fail with the status of the transient fault that is armed".  It tracks [g],
   the bytes the script has legitimately written to the upload session, and states

     (faults)  while a well-positioned writer is in use every Start / Write / resume / Commit
               succeeds, EXCEPT that ONE call may fail with the armed fault's status; that
               call changed nothing: Size() is still len g, and repeating it must succeed, so
               the upload still commits as the concatenation of the accepted bytes;
     (commits) EVERY Commit - the first, a repeated one on the same writer, one from a writer
               that resumed the session through a remembered id - whose digest is not
               hash g fails; a Commit that reports success under digest d leaves, in every
               registry underneath, a blob under d whose digest is d (whatever the shape of
               the script); at the end the registries hold exactly the contents committed
               with their own digests and nothing under any other digest of interest.

     (unseen)  after the registries have lost everything (XForget) the remembered id names an
               upload the registry has never seen.  A registry may refuse to resume it (no
               further expectation); if the resume succeeds the registry holds ZERO bytes
               of that upload: asked for the offset it says 0, and data sent through a
               writer positioned at an explicit offset other than 0 is refused as range
               invalid (416 over HTTP) by the time that writer is closed or committed, and
               is not part of the upload, which then still completes from offset 0.

   Results are looked at only through ok / error / status, never the error code. *)
From Coq Require Import String.
From OCI Require Export Model.UploadX Model.UploadSpec.

Local Open Scope Z_scope.

Inductive xs :=
  | XsInit
  | XsOpen (g : bytes) (post : bool)      (* post: a Commit has reached the session; only (commits) is stated then *)
  | XsClosed (g : bytes) (post : bool)
  | XsForgot                              (* the registries hold nothing; no writer in hand *)
  | XsEp (seen : bool) (sent : bytes)     (* a writer at an offset > 0 on an upload of which the registry holds nothing *)
  | XsStop.

Record xk := { k_s : xs; k_armed : option Z; k_mark : option bytes; k_done : list (bytes * bytes) }.

Definition set_s (k : xk) (s' : xs) : xk :=
  {| k_s := s'; k_armed := k_armed k; k_mark := k_mark k; k_done := k_done k |}.
Definition stop (k : xk) : xk := set_s k XsStop.
Definition arm (k : xk) (a : option Z) : xk :=
  {| k_s := k_s k; k_armed := a; k_mark := k_mark k; k_done := k_done k |}.
Definition set_mark (k : xk) (g : bytes) : xk :=
  {| k_s := k_s k; k_armed := k_armed k; k_mark := Some g; k_done := k_done k |}.
Definition forgot (k : xk) : xk :=
  {| k_s := XsForgot; k_armed := k_armed k;
     k_mark := match k_mark k with Some _ => Some [] | None => None end; k_done := [] |}.
Definition record_commit (k : xk) (d g : bytes) : xk :=
  {| k_s := k_s k; k_armed := k_armed k; k_mark := k_mark k; k_done := (d, g) :: k_done k |}.

Definition is_fault (armed : option Z) (r : ures) : bool :=
  match armed, r with
  | Some f, UErr _ st => st =? f
  | _, _ => false
  end.

(* a call that must succeed: it did ([good]), or the armed fault hit it (the state stays,
   [stay] must hold, the fault is spent) *)
Definition need (k : xk) (r : ures) (good : bool) (next : xs) (stay : bool) : xk * bool :=
  if good then (set_s k next, true)
  else if is_fault (k_armed k) r then (arm k None, stay)
  else (k, false).

Definition well_positioned (m : rmode) (g : bytes) : option bool :=
  match m with
  | MSize => Some true
  | MInfo => if blen g =? 1 then None else Some true      (* the point the property excludes *)
  | MAt off => Some (off =? blen g)
  end.

Definition mark_is (k : xk) (g : bytes) : bool :=
  match k_mark k with Some g' => beqb g' g | None => false end.

Definition is_uok_any (r : ures) : bool := match r with UOk _ => true | _ => false end.

(* a refusal of misplaced data, as far as a normalised observation shows it *)
Definition is_refusal_x (http : bool) (r : ures) : bool :=
  match r with
  | UErr _ st => if http then st =? 416 else (st =? 0) || (st =? 416)
  | _ => false
  end.

Section XCheck.
  Variable hash : bytes -> bytes.
  Variable http : bool.

  Definition xcommit (k : xk) (closed : bool) (g : bytes) (post : bool) (dg : bytes) (r : ures) : xk * bool :=
    let same := fun p => if closed then XsClosed g p else XsOpen g p in
    if negb (beqb dg (hash g)) then
      (* a digest that is not the content's digest: the Commit fails *)
      if is_fault (k_armed k) r then (arm k None, true)
      else (set_s k (same true), is_uerr r)
    else if is_uok (blen g) r then (record_commit (set_s k (same true)) dg g, true)
    else if post || closed then
      (* no promise that it succeeds; if it says it did, the size is the content's *)
      (set_s k (same true), negb (is_uok_any r))
    else need k r false (same true) true.

  Definition xresume (k : xk) (g : bytes) (post : bool) (m : rmode) (ob : uobs) : xk * bool :=
    let r := uo_res ob in
    match well_positioned m g with
    | None => (stop k, true)
    | Some false => (stop k, true)      (* wrong-offset episodes: Model/UploadSpec.v *)
    | Some true =>
        if post then ((if is_uok 0 r then set_s k (XsOpen g true) else stop k), true)
        else need k r (is_uok 0 r && (uo_size ob =? blen g)) (XsOpen g false) true
    end.

  Definition one_fault (plan : list Z) : option (option Z) :=
    match filter (fun f => negb (f =? 0)) plan with
    | [] => Some None
    | [f] => Some (Some f)
    | _ => None
    end.

  Definition xstep (k : xk) (o : xop) (ob : uobs) : xk * bool :=
    let r := uo_res ob in
    let sz := uo_size ob in
    match k_s k, o with
    | XsStop, _ => (k, true)
    | _, XU (UCommit []) => (stop k, true)                 (* the empty string is not a digest *)
    | _, XFault plan =>
        match one_fault plan with
        | Some a => (arm k a, is_uok 0 r)
        | None => (stop k, true)
        end
    | _, XForget => (forgot k, is_uok 0 r)
    | XsForgot, XResumeMark m _ =>
        match k_mark k with
        | None => (stop k, true)
        | Some _ =>
            if negb (is_uok 0 r) then (stop k, true)      (* a registry may refuse an upload it does not know *)
            else match m with
                 | MSize => (stop k, true)
                 | MInfo => (set_s k (XsOpen [] false), sz =? 0)
                 | MAt off =>
                     if off =? 0 then (set_s k (XsOpen [] false), sz =? 0)
                     else if 0 <? off then (set_s k (XsEp false []), true)
                     else (stop k, true)
                 end
        end
    | XsEp seen sent, XU (UWrite d) =>
        (set_s k (XsEp (seen || is_uerr r) (sent ++ d)), is_uok (blen d) r || is_refusal_x http r)
    | XsEp seen sent, XU UClose =>
        (set_s k (XsClosed [] false),
         (is_uok 0 r || is_refusal_x http r)
         && (match sent with [] => true | _ => seen || is_uerr r end))
    | XsEp seen sent, XU (UCommit _) =>
        match sent, seen with
        | _ :: _, false => (set_s k (XsClosed [] false), is_refusal_x http r)
        | _, _ => (stop k, true)
        end
    | XsInit, XU (UStart _) => need k r (is_uok 0 r && (sz =? 0)) (XsOpen [] false) true
    | XsOpen g false, XU (UWrite d) =>
        need k r (is_uok (blen d) r && (sz =? blen (g ++ d))) (XsOpen (g ++ d) false) (sz =? blen g)
    | XsOpen g true, XU (UWrite d) =>
        ((if is_uok (blen d) r then set_s k (XsOpen (g ++ d) true) else stop k), true)
    | XsOpen g false, XU UClose =>
        if is_uok 0 r && (sz =? blen g) then (set_s k (XsClosed g false), true)
        else if is_fault (k_armed k) r then (stop k, true)  (* a failed Close cannot be repeated *)
        else (k, false)
    | XsOpen g true, XU UClose => ((if is_uok 0 r then set_s k (XsClosed g true) else stop k), true)
    | XsOpen g post, XU (UCommit dg) => xcommit k false g post dg r
    | XsClosed g post, XU (UCommit dg) => xcommit k true g post dg r
    | XsClosed g post, XU (UResume m _) => xresume k g post m ob
    | XsOpen g _, XMark | XsClosed g _, XMark => (set_mark k g, is_uok 0 r)
    | XsClosed g post, XResumeMark m _ =>
        if mark_is k g then xresume k g post m ob else (stop k, true)
    | XsOpen g true, XResumeMark m _ =>
        if mark_is k g then xresume k g true m ob else (stop k, true)
    | _, _ => (stop k, true)
    end.

  Fixpoint xsteps (k : xk) (ops : list xop) (obs : list uobs) : xk * bool :=
    match ops, obs with
    | [], [] => (k, true)
    | o :: ops', ob :: obs' =>
        let '(k1, ok) := xstep k o ob in
        if ok then xsteps k1 ops' obs' else (k1, false)
    | _, _ => (k, false)
    end.

  Definition lookup_d (d : bytes) (l : list (bytes * bytes)) : option bytes :=
    match find (fun p => beqb (fst p) d) l with Some p => Some (snd p) | None => None end.

  (* at the end: exactly the committed contents, under their own digests *)
  Definition xstored_ok (k : xk) (stored : list (bytes * list (option bytes))) : bool :=
    match k_s k with
    | XsStop => true
    | _ => forallb (fun p => forallb (obytes_eq (lookup_d (fst p) (k_done k))) (snd p)) stored
    end.

  (* whatever the script: a Commit that reports success under d left a blob of digest d under d *)
  Definition holds (stored : list (bytes * list (option bytes))) (d : bytes) : bool :=
    match find (fun p => beqb (fst p) d) stored with
    | Some p => forallb (fun v => match v with Some c => beqb (hash c) d | None => false end) (snd p)
    | None => false
    end.

  Fixpoint commits_ok (started : bool) (ops : list xop) (obs : list uobs)
           (stored : list (bytes * list (option bytes))) : bool :=
    match ops, obs with
    | o :: ops', ob :: obs' =>
        let started' := started || match o with XU (UStart _) => is_uok 0 (uo_res ob) | _ => false end in
        match o with
        | XU (UCommit (b :: d)) =>
            match uo_res ob with
            | UOk _ => holds stored (b :: d)
            | UErr _ _ => true
            | UBroken => negb started
            end
        | _ => true
        end && commits_ok started' ops' obs' stored
    | _, _ => true
    end.

  (* the part of a script after the last XForget (what was committed before it is gone) *)
  Fixpoint since_forget (ops : list xop) (obs : list uobs) (acc : list xop * list uobs) : list xop * list uobs :=
    match ops, obs with
    | o :: ops', _ :: obs' =>
        since_forget ops' obs' (match o with XForget => (ops', obs') | _ => acc end)
    | _, _ => acc
    end.

  Definition k0 : xk := {| k_s := XsInit; k_armed := None; k_mark := None; k_done := [] |}.

  Definition xcheck (ops : list xop) (obs : list uobs) (stored : list (bytes * list (option bytes))) : bool :=
    let '(k, ok) := xsteps k0 ops obs in
    let '(ops1, obs1) := since_forget ops obs (ops, obs) in
    ok && xstored_ok k stored && commits_ok false ops1 obs1 stored.
End XCheck.

(* what the checker can see of an observation *)
Definition norm_res (r : ures) : ures :=
  match r with UErr _ st => UErr ENone st | _ => r end.
Definition norm (ob : uobs) : uobs :=
  {| uo_res := norm_res (uo_res ob); uo_size := uo_size ob; uo_chunk := uo_chunk ob |}.
