(* Model of ociregistry/ocifilter/readonly.go (ReadOnly) and
   ociregistry/ocifilter/immutable.go (Immutable), as they are in /repo now.

   As in Model/Filter.v a wrapper is a function from an ARBITRARY backend step function
   (and backend state) to a step function that also reports the backend calls it made.

   ReadOnly has no method body at all: it is a struct literal whose method set is decided
   by Go's selector rules (shallowest embedded field wins, two candidates at the same depth
   are an error).  That rule is modelled as data ([field], [select_method]) so that the
   struct can be put next to the Go source

       type deeper struct{ *ociregistry.Funcs }
       struct{ ociregistry.Reader; ociregistry.Lister; deeper }{Reader: r, Lister: r}

   and so that "which methods are promoted from where" is a computed fact, not an
   assumption.  The *Funcs inside [deeper] is never assigned: it is the nil table of
   func.go (Model/Funcs.v, property C20), whose every method answers
   "<Method>: unsupported operation". *)
From Coq Require Import String.
From OCI Require Export Model.Filter.

(* ------------------------------------------------------------------------------------ *)
(* Method sets of struct types with embedded fields (Go spec, "Selectors").              *)
(* ------------------------------------------------------------------------------------ *)

(* where a method of the wrapper type comes from *)
Inductive source :=
  | SrcSelf          (* declared on the wrapper type itself *)
  | SrcReader        (* the embedded ociregistry.Reader value (= r) *)
  | SrcLister        (* the embedded ociregistry.Lister value (= r) *)
  | SrcInterface     (* the embedded ociregistry.Interface value (= r) *)
  | SrcFuncs.        (* an embedded *ociregistry.Funcs that is nil *)

Definition source_eqb (a b : source) : bool :=
  match a, b with
  | SrcSelf, SrcSelf | SrcReader, SrcReader | SrcLister, SrcLister
  | SrcInterface, SrcInterface | SrcFuncs, SrcFuncs => true
  | _, _ => false
  end.

(* one provider of methods: the depth at which its methods appear in the outer type (0 =
   declared on the type, 1 = methods of a directly embedded field, 2 = of a field embedded
   in an embedded struct, ...) and which methods it has *)
Record field := { f_depth : nat; f_src : source; f_has : method -> bool }.

(* ociregistry.Reader, ociregistry.Lister (interface.go) *)
Definition reader_methods (m : method) : bool :=
  match m with
  | MGetBlob | MGetBlobRange | MGetManifest | MGetTag
  | MResolveBlob | MResolveManifest | MResolveTag => true
  | _ => false
  end.
Definition lister_methods (m : method) : bool :=
  match m with MRepositories | MTags | MReferrers => true | _ => false end.
Definition all_methods_set (m : method) : bool := true.

Inductive selection := SelUnique (src : source) | SelAmbiguous | SelNone.

Fixpoint min_depth (fs : list field) : nat :=
  match fs with
  | [] => 0%nat
  | [f] => f_depth f
  | f :: fs' => Nat.min (f_depth f) (min_depth fs')
  end.

(* x.m denotes the method at the shallowest depth; it must be unique there *)
Definition select_method (fs : list field) (m : method) : selection :=
  let cands := filter (fun f => f_has f m) fs in
  match cands with
  | [] => SelNone
  | _ => match filter (fun f => Nat.eqb (f_depth f) (min_depth cands)) cands with
         | [f] => SelUnique (f_src f)
         | _ => SelAmbiguous
         end
  end.

(* ------------------------------------------------------------------------------------ *)
(* readonly.go                                                                          *)
(* ------------------------------------------------------------------------------------ *)

(* struct{ Reader; Lister; deeper }  with  deeper = struct{ *Funcs } *)
Definition readonly_fields : list field :=
  [ {| f_depth := 1; f_src := SrcReader; f_has := reader_methods |};
    {| f_depth := 1; f_src := SrcLister; f_has := lister_methods |};
    {| f_depth := 2; f_src := SrcFuncs; f_has := all_methods_set |} ].

(* an operation on a BlobWriter that does not exist: through ReadOnly no method hands out
   a writer (PushBlobChunked* are the nil-table methods: nil writer, error) *)
Definition no_writer_err : err := E ENone (s "no such writer").

Section Wrappers.
  Context {B : Type}.
  Variable bstep : registry B.     (* the wrapped registry r, with its state threaded *)

  (* the method the selector rules pick, run *)
  Definition run_selected (fs : list field) (self : tstep B op) (st : B) (o : op) (m : method)
    : B * result * list op :=
    match select_method fs m with
    | SelUnique SrcSelf => self st o
    | SelUnique SrcReader | SelUnique SrcLister | SelUnique SrcInterface => delegate bstep st o
    | SelUnique SrcFuncs => (st, promoted_result m, [])
    | SelAmbiguous | SelNone => (st, Panic, [])     (* the type does not implement Interface: no such program *)
    end.

  Definition ro_step : tstep B op := fun st o =>
    match op_method o with
    | Some m => run_selected readonly_fields (fun st _ => (st, Panic, [])) st o m
    | None => (st, Err no_writer_err, [])
    end.

  (* ---------------------------------------------------------------------------------- *)
  (* immutable.go                                                                       *)
  (* ---------------------------------------------------------------------------------- *)

  Variable hash : bytes -> bytes.  (* digest.FromBytes *)

  (* type immutable struct{ ociregistry.Interface } declares four methods itself *)
  Definition immutable_declared (m : method) : bool :=
    match m with
    | MPushManifest | MDeleteBlob | MDeleteManifest | MDeleteTag => true
    | _ => false
    end.
  Definition immutable_fields : list field :=
    [ {| f_depth := 0; f_src := SrcSelf; f_has := immutable_declared |};
      {| f_depth := 1; f_src := SrcInterface; f_has := all_methods_set |} ].

  (* fmt.Errorf("this store is immutable: %w", ociregistry.ErrDenied) *)
  Definition e_store_immutable : err := E DENIED (s "this store is immutable").
  (* fmt.Errorf("cannot resolve tag that's just been pushed: %v", err): the code is lost *)
  Definition e_cannot_resolve : err := E ENone (s "cannot resolve tag that's just been pushed").

  (* a (Descriptor, error) pair as Go sees it; an Ok of another shape is not a value of
     that type (cannot come out of a Go method) *)
  Definition as_desc (r : result) : R err desc :=
    match r with
    | Ok (RDesc d) => Ok d
    | Ok _ => Panic
    | Err e => Err e
    | Panic => Panic
    | OutOfFuel => OutOfFuel
    end.

  (* the bodies of the four declared methods *)
  Definition imm_self : tstep B op := fun st o =>
    match o with
    | PushManifest repo tag contents mediaType =>
        match tag with
        | [] => delegate bstep st o            (* return r.Interface.PushManifest(...) *)
        | _ =>
            let dig := hash contents in
            let c1 := ResolveTag repo tag in
            let '(st1, r1) := bstep st c1 in
            match as_desc r1 with
            | Ok desc =>
                if beqb (d_digest desc) dig
                then (st1, Ok (RDesc desc), [c1])                (* same content: OK *)
                else (st1, Err e_store_immutable, [c1])
            | Panic => (st1, Panic, [c1])
            | OutOfFuel => (st1, OutOfFuel, [c1])
            | Err _ =>
                let '(st2, r2) := bstep st1 o in
                match as_desc r2 with
                | Err err => (st2, Err err, [c1; o])
                | Panic => (st2, Panic, [c1; o])
                | OutOfFuel => (st2, OutOfFuel, [c1; o])
                | Ok _ =>
                    let '(st3, r3) := bstep st2 c1 in
                    match as_desc r3 with
                    | Err _ => (st3, Err e_cannot_resolve, [c1; o; c1])
                    | Panic => (st3, Panic, [c1; o; c1])
                    | OutOfFuel => (st3, OutOfFuel, [c1; o; c1])
                    | Ok desc =>
                        if beqb (d_digest desc) dig
                        then (st3, Ok (RDesc desc), [c1; o; c1])
                        else (st3, Err e_store_immutable, [c1; o; c1])   (* we lost the race *)
                    end
                end
            end
        end
    | DeleteBlob _ _ | DeleteManifest _ _ | DeleteTag _ _ => (st, Err ErrDenied, [])
    | _ => (st, Panic, [])     (* not a declared method: never selected *)
    end.

  (* PushBlobChunked / PushBlobChunkedResume are promoted from the embedded Interface, so
     the BlobWriter a caller holds is the backend's own object: operations on it are calls
     on the backend in which no wrapper code runs *)
  Definition imm_step : tstep B op := fun st o =>
    match op_method o with
    | Some m => run_selected immutable_fields imm_self st o m
    | None => delegate bstep st o
    end.
End Wrappers.

(* ------------------------------------------------------------------------------------ *)
(* Vocabulary for the statements                                                        *)
(* ------------------------------------------------------------------------------------ *)

(* the methods of Reader and Lister: calls that may reach the backend through ReadOnly *)
Definition is_read_method (m : method) : bool := reader_methods m || lister_methods m.
Definition is_read_op (o : op) : bool :=
  match op_method o with Some m => is_read_method m | None => false end.
Definition is_delete_op (o : op) : bool :=
  match o with DeleteBlob _ _ | DeleteManifest _ _ | DeleteTag _ _ => true | _ => false end.

(* registry view of a tstep: forget the trace *)
Definition forget {B C} (step : tstep B C) : registry B := fun st o => fst (step st o).
