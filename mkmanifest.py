#!/usr/bin/env python3
"""Regenerates MANIFEST.json from props/*.json (one file per claimed property)."""
import glob, json, os
ROOT = os.path.dirname(os.path.abspath(__file__))
ids = [json.loads(l)["id"] for l in open(os.path.join(ROOT, "properties.jsonl"))]
props = {}
for p in sorted(glob.glob(os.path.join(ROOT, "props", "C*.json"))):
    d = json.load(open(p))
    props[d["id"]] = d
na_reasons = {}
nap = os.path.join(ROOT, "props", "not_applicable.json")
if os.path.exists(nap):
    na_reasons = json.load(open(nap))
hooks = json.load(open(os.path.join(ROOT, "props", "hooks.json")))
# only properties whose check has been seen green on the unchanged tree are claimed
registered = set(json.load(open(os.path.join(ROOT, "props", "registered.json"))))
props = {k: v for k, v in props.items() if k in registered}
checks = []
for i in ids:
    if i not in props:
        continue
    d = props[i]
    checks.append({
        "property_id": i,
        "quick_cmd": "./check %s --tier quick" % i,
        "thorough_cmd": "./check %s --tier thorough" % i,
        "evidence_file": "/verif/evidence/%s.json" % i,
        "replay_cmd_template": "./check %s --replay {path}" % i,
        "engine": "coq-model+correspondence",
        "level_claimed": {"category": "proof", "text": d["level_text"], "design_ref": d.get("design_ref", "DESIGN.md section 4 " + i)},
        "level_note": d["level_note"],
        "technique": d["technique"],
    })
m = {
    "version": 1,
    "setup_cmd": "./build.sh",
    "hooks": hooks,
    "engines": [{"name": "coq-model+correspondence", "path": "/verif/check", "serves_properties": [c["property_id"] for c in checks],
                 "kind_free_text": "Coq 8.16.1 theorems about an executable Gallina model of the code; a Go harness (built with -tags verif against /repo's working tree on every run) records the implementation's behaviour and Coq evaluates, by vm_compute, agreement with the model and with the property's specification on every recorded case"}],
    "checks": checks,
    "notes": "See DESIGN.md. known_findings.json lists recorded findings and fixed defects.",
    "not_applicable": [{"property_id": i, "reason": na_reasons.get(i, "no check registered yet: model and correspondence for this property are still under construction (see DESIGN.md section 4 for the plan)")}
                       for i in ids if i not in props],
}
json.dump(m, open(os.path.join(ROOT, "MANIFEST.json"), "w"), indent=1)
print("claimed:", [c["property_id"] for c in checks])
